#!/bin/bash
# Offline set-up: hypothesis into /venv if missing; jsonschema and atheris into /verif/.deps.
cd "$(dirname "$0")" || exit 2
export PIP_NO_INDEX=1
WH=/opt/veriftools/wheels
/venv/bin/python -c "import hypothesis" 2>/dev/null || \
  /venv/bin/pip install --no-index --find-links "$WH" hypothesis || exit 1
mkdir -p .deps
PYTHONPATH="$(pwd)/.deps" /venv/bin/python -c "import jsonschema" 2>/dev/null || \
  /venv/bin/pip install --no-index --find-links "$WH" --target .deps jsonschema || echo "jsonschema unavailable (evidence validated by built-in rules)"
PYTHONPATH="$(pwd)/.deps" /venv/bin/python -c "import atheris" 2>/dev/null || \
  /venv/bin/pip install --no-index --find-links "$WH" --target .deps atheris || echo "atheris unavailable (C10 thorough tier runs without the coverage-guided stage)"
/venv/bin/python -c "import cfdppy, spacepackets, hypothesis; print('setup ok', hypothesis.__version__)"
