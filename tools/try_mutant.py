#!/venv/bin/python
"""tools/try_mutant.py <patch.diff> [--demo demo.py] [--tier quick] C01 C05 ...

Applies a seeded change to /repo, confirms the pinned suite still passes and the demonstration
fails, runs the named checks, then restores /repo (always) and confirms the demonstration passes
on the restored tree. Prints one JSON summary line per step. Never leaves /repo modified.
"""
import argparse
import json
import os
import re
import subprocess
import sys
import time

REPO = "/repo"
VERIF = os.path.dirname(os.path.dirname(os.path.abspath(__file__)))


def sh(cmd, cwd=None, env=None, timeout=3600):
    e = dict(os.environ)
    e.update(env or {})
    p = subprocess.run(cmd, shell=True, cwd=cwd, env=e, capture_output=True, text=True, timeout=timeout)
    return p.returncode, p.stdout + p.stderr


def clean():
    rc, out = sh("git status --porcelain --untracked-files=no", REPO)
    return out.strip() == ""


def main():
    ap = argparse.ArgumentParser()
    ap.add_argument("patch")
    ap.add_argument("--demo")
    ap.add_argument("--tier", default="quick")
    ap.add_argument("--seed", default="1")
    ap.add_argument("--skip-suite", action="store_true")
    ap.add_argument("props", nargs="*")
    a = ap.parse_intermixed_args()
    res = {"patch": a.patch}
    if not clean():
        print("REPO NOT CLEAN - refusing")
        return 2
    rc, out = sh(f"git apply --whitespace=nowarn {os.path.abspath(a.patch)}", REPO)
    if rc != 0:
        rc, out = sh(f"git apply --3way --whitespace=nowarn {os.path.abspath(a.patch)}", REPO)
        if rc != 0:
            print("PATCH DOES NOT APPLY:", out[-500:])
            sh("git reset -q --hard HEAD", REPO)
            return 2
        sh("git reset -q", REPO)
    try:
        if not a.skip_suite:
            rc, out = sh("/venv/bin/python -m pytest -q -p no:cacheprovider --timeout=900 2>&1 | tail -3", REPO)
            m = re.search(r"(\d+) passed", out)
            res["suite_passed"] = int(m.group(1)) if m else 0
            res["suite_failed"] = "failed" in out
        if a.demo:
            rc, out = sh(f"/venv/bin/python {os.path.abspath(a.demo)}", REPO, {"PYTHONPATH": "/repo/src:/repo"}, timeout=600)
            res["demo_with_change_exit"] = rc
        res["checks"] = {}
        for p in a.props:
            t0 = time.time()
            rc, out = sh(f"./check {p} --tier {a.tier}", VERIF, {"VERIF_SEED": a.seed})
            lines = [l for l in out.splitlines() if l.startswith("VIOLATION") or l.startswith("HARNESS") or l.startswith("INCONCLUSIVE") or l.startswith("  clause=")]
            res["checks"][p] = {"exit": rc, "wall": round(time.time() - t0, 1), "lines": [l[:400] for l in lines[:8]]}
    finally:
        sh("git reset -q --hard HEAD", REPO)
    if not clean():
        print("REPO NOT CLEAN AFTER RESTORE")
        return 2
    if a.demo:
        rc, out = sh(f"/venv/bin/python {os.path.abspath(a.demo)}", REPO, {"PYTHONPATH": "/repo/src:/repo"}, timeout=600)
        res["demo_without_change_exit"] = rc
    print(json.dumps(res, indent=1))
    caught = [p for p, r in res.get("checks", {}).items() if r["exit"] == 1]
    print("CAUGHT-BY:", ",".join(caught) if caught else "-")
    return 0


if __name__ == "__main__":
    sys.exit(main())
