#!/venv/bin/python
"""tools/try_mutant.py <patch.diff> [--demo demo.py] [--tier quick] [--inplace] C01 C05 ...

Confirms a seeded change and runs the named checks against it. Default: the change is applied in a
scratch git worktree of /repo's HEAD (under /tmp, removed afterwards) and the checks are pointed at it
with CFDPPY_VERIF_SCRATCH_REPO, so /repo itself is never modified and several changes can be tried while other
checks run. --inplace applies it to /repo (git -C /repo apply), runs, and restores /repo.
Steps: suite with the change (must stay at 78 passed), demonstration with the change (must exit 1),
the checks, demonstration without the change (must exit 0). Prints a JSON summary.
"""
import argparse
import json
import os
import re
import subprocess
import sys
import tempfile
import time

REPO = "/repo"
VERIF = os.path.dirname(os.path.dirname(os.path.abspath(__file__)))


def sh(cmd, cwd=None, env=None, timeout=7200):
    e = dict(os.environ)
    e.update(env or {})
    p = subprocess.run(cmd, shell=True, cwd=cwd, env=e, capture_output=True, text=True, timeout=timeout)
    return p.returncode, p.stdout + p.stderr


def clean(root):
    rc, out = sh("git status --porcelain --untracked-files=no", root)
    return out.strip() == ""


def main():
    ap = argparse.ArgumentParser()
    ap.add_argument("patch")
    ap.add_argument("--demo")
    ap.add_argument("--tier", default="quick")
    ap.add_argument("--seed", default="1")
    ap.add_argument("--skip-suite", action="store_true")
    ap.add_argument("--inplace", action="store_true")
    ap.add_argument("props", nargs="*")
    a = ap.parse_intermixed_args()
    res = {"patch": a.patch}
    patch = os.path.abspath(a.patch)
    demo = os.path.abspath(a.demo) if a.demo else None
    if a.inplace:
        root = REPO
        if not clean(REPO):
            print("REPO NOT CLEAN - refusing")
            return 2
    else:
        root = tempfile.mkdtemp(prefix="mutwt-", dir="/tmp")
        os.rmdir(root)
        rc, out = sh(f"git worktree add -q --detach {root} HEAD", REPO)
        if rc != 0:
            print("CAN NOT CREATE WORKTREE:", out[-300:])
            return 2
    try:
        rc, out = sh(f"git apply --whitespace=nowarn {patch}", root)
        if rc != 0:
            rc, out = sh(f"git apply --3way --whitespace=nowarn {patch}", root)
            if rc != 0:
                print("PATCH DOES NOT APPLY:", out[-500:])
                return 2
            sh("git reset -q", root)
        env = {"PYTHONPATH": f"{root}/src:{root}"}
        if not a.skip_suite:
            rc, out = sh("/venv/bin/python -m pytest -q -p no:cacheprovider --timeout=900 2>&1 | tail -3", root, {"PYTHONPATH": f"{root}/src"})
            m = re.search(r"(\d+) passed", out)
            res["suite_passed"] = int(m.group(1)) if m else 0
            res["suite_failed"] = "failed" in out
        if demo:
            rc, out = sh(f"/venv/bin/python {demo}", root, env, timeout=900)
            res["demo_with_change_exit"] = rc
        res["checks"] = {}
        for p in a.props:
            t0 = time.time()
            rc, out = sh(f"./check {p} --tier {a.tier}", VERIF, {"VERIF_SEED": a.seed, "CFDPPY_VERIF_SCRATCH_REPO": root})
            lines = [l for l in out.splitlines() if l.startswith("VIOLATION") or l.startswith("HARNESS") or l.startswith("INCONCLUSIVE") or l.startswith("  clause=")]
            res["checks"][p] = {"exit": rc, "wall": round(time.time() - t0, 1), "lines": [l[:400] for l in lines[:8]]}
    finally:
        if a.inplace:
            sh("git reset -q --hard HEAD", REPO)
        else:
            sh(f"git worktree remove --force {root}", REPO)
            sh("git worktree prune", REPO)
    if a.inplace and not clean(REPO):
        print("REPO NOT CLEAN AFTER RESTORE")
        return 2
    if demo:
        rc, out = sh(f"/venv/bin/python {demo}", REPO, {"PYTHONPATH": "/repo/src:/repo"}, timeout=900)
        res["demo_without_change_exit"] = rc
    print(json.dumps(res, indent=1))
    caught = [p for p, r in res.get("checks", {}).items() if r["exit"] == 1]
    print("CAUGHT-BY:", ",".join(caught) if caught else "-")
    return 0


if __name__ == "__main__":
    sys.exit(main())
