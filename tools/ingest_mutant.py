#!/venv/bin/python
"""tools/ingest_mutant.py <PROP> <A|B|..> [--src /tmp/mut/<PROP>] [--checks C01,C05] [--tier quick] [--needs "text"]

Confirms a sub-agent's seeded change (suite still 78 passed, demonstration fails with the change and
passes without it), runs the named checks against it and stores it under /verif/seeded/<PROP>-<X>/
(patch.diff, demo.py, notes.md, meta.json). /repo is restored afterwards.
"""
import argparse
import json
import os
import shutil
import subprocess
import sys

VERIF = os.path.dirname(os.path.dirname(os.path.abspath(__file__)))


def main():
    ap = argparse.ArgumentParser()
    ap.add_argument("prop")
    ap.add_argument("letter")
    ap.add_argument("--src")
    ap.add_argument("--checks")
    ap.add_argument("--tier", default="quick")
    ap.add_argument("--needs", default="")
    ap.add_argument("--what", default="")
    ap.add_argument("--as", dest="as_letter", default=None, help="letter to store it under (default: same letter)")
    a = ap.parse_args()
    src = a.src or f"/tmp/mut/{a.prop}"
    patch = os.path.join(src, f"mut{a.letter}.diff")
    demo = os.path.join(src, f"demo_{a.letter}.py")
    if not os.path.exists(patch) or not os.path.exists(demo):
        print("missing", patch, demo)
        return 2
    store = a.as_letter or a.letter
    dst = os.path.join(VERIF, "seeded", f"{a.prop}-{store}")
    os.makedirs(dst, exist_ok=True)
    shutil.copy(patch, os.path.join(dst, "patch.diff"))
    shutil.copy(demo, os.path.join(dst, "demo.py"))
    if os.path.exists(os.path.join(src, "NOTES.md")):
        shutil.copy(os.path.join(src, "NOTES.md"), os.path.join(dst, "notes.md"))
    checks = (a.checks or a.prop).split(",")
    cmd = [os.path.join(VERIF, "tools", "try_mutant.py"), os.path.join(dst, "patch.diff"), "--demo", os.path.join(dst, "demo.py"), "--tier", a.tier] + checks
    p = subprocess.run(cmd, capture_output=True, text=True)
    out = p.stdout
    try:
        js = json.loads(out[out.index("{") : out.rindex("}") + 1])
    except Exception:
        print(out, p.stderr)
        return 2
    ok = js.get("suite_passed") == 78 and not js.get("suite_failed") and js.get("demo_with_change_exit") == 1 and js.get("demo_without_change_exit") == 0
    meta_path = os.path.join(dst, "meta.json")
    meta = {}
    if os.path.exists(meta_path):
        meta = json.load(open(meta_path))
    meta.update(
        {
            "id": f"{a.prop}-{store}",
            "breaks_property": a.prop,
            "origin": "independent sub-agent given only the property text and a scratch worktree",
            "confirmed": ok,
            "confirmation": {
                "suite_with_change": f"{js.get('suite_passed')} passed" + (" (failures!)" if js.get("suite_failed") else ""),
                "demo_with_change_exit": js.get("demo_with_change_exit"),
                "demo_without_change_exit": js.get("demo_without_change_exit"),
                "how": "tools/try_mutant.py: git -C /repo apply patch.diff; pytest; PYTHONPATH=/repo/src python demo.py; ./check <ids>; git -C /repo checkout -- .; demo again",
            },
        }
    )
    if a.needs:
        meta["needs_to_manifest"] = a.needs
    if a.what:
        meta["what"] = a.what
    runs = meta.setdefault("check_runs", [])
    for c, r in js.get("checks", {}).items():
        runs.append({"check": c, "tier": a.tier, "exit": r["exit"], "caught": r["exit"] == 1, "wall_s": r["wall"], "first_lines": r["lines"][:3]})
    meta["caught_by"] = sorted({r["check"] for r in runs if r["caught"]})
    json.dump(meta, open(meta_path, "w"), indent=1)
    print(json.dumps({k: meta[k] for k in ("id", "confirmed", "caught_by")}), [(r["check"], r["exit"]) for r in runs[-len(checks):]])
    if not ok:
        print("NOT CONFIRMED:", js)
    return 0


if __name__ == "__main__":
    sys.exit(main())
