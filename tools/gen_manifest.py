#!/venv/bin/python
"""Regenerate MANIFEST.json from the property modules present in lib/props (keeps it valid)."""
import importlib, json, os, sys
sys.path.insert(0, os.path.dirname(os.path.dirname(os.path.abspath(__file__))))
sys.path.insert(0, "/repo/src")
ALL = [f"C{i:02d}" for i in range(1, 21)]
checks, na = [], []
for pid in ALL:
    path = os.path.join(os.path.dirname(__file__), "..", "lib", "props", pid.lower() + ".py")
    if not os.path.exists(path):
        na.append({"property_id": pid, "reason": "check not built yet (planned in DESIGN.md section 4; property-based testing applies)"})
        continue
    m = importlib.import_module(f"lib.props.{pid.lower()}")
    checks.append({
        "property_id": pid,
        "quick_cmd": f"./check {pid} --tier quick",
        "thorough_cmd": f"./check {pid} --tier thorough",
        "evidence_file": f"/verif/evidence/{pid}.json",
        "replay_cmd_template": f"./check {pid} --replay {{path}}",
        "engine": "pbt",
        "level_claimed": {"category": m.LEVEL, "text": m.LEVEL_TEXT, "design_ref": f"DESIGN.md section 4, {pid}"},
        "level_note": m.LEVEL_NOTE,
        "technique": m.TECHNIQUE,
    })
man = {
    "version": 1,
    "setup_cmd": "./setup.sh",
    "hooks": {
        "guard": "CFDPPY_VERIF",
        "enable": "no hooks: the checks observe /repo's working tree from outside (virtual clock via spacepackets.countdown.time_ms, recording user / fault-handler subclasses, sandboxed and in-memory filestores); ./check exports CFDPPY_VERIF=1 for uniformity, nothing in /repo reads it",
        "baseline_off_cmd": "cd /repo && /venv/bin/python -m pytest -ra -q -p no:cacheprovider --timeout=900 --continue-on-collection-errors",
        "source_commits": [],
        "add_only": True,
    },
    "engines": [{"name": "pbt", "path": "/verif/lib", "serves_properties": [c["property_id"] for c in checks],
                 "kind_free_text": "Hypothesis-generated cases and histories, complete enumeration of small finite spaces, explicit reference-model / differential / invariant oracles, sharded over 16 processes; every failure is shrunk and written as a JSON replay that runs without Hypothesis"}],
    "checks": checks,
    "not_applicable": na,
    "notes": "All random choices derive from VERIF_SEED (default 1). Exit 2 = harness error / inconclusive, never a violation. known_findings.json lists the genuine defects (all repaired by fix: commits in /repo, status 'fixed', kept replays re-run as regression cases); no entry has status 'known', so no check prints KNOWN-FINDING. replays/quiet/ holds cases on which an earlier oracle raised a false alarm (must stay quiet). seeded/ holds 88 confirmed seeded changes by independent sub-agents with what catches them (DESIGN.md section 9). The registered commands always import /repo's working tree; only tools/try_mutant.py sets CFDPPY_VERIF_SCRATCH_REPO to point a run at a scratch worktree with a seeded change (its evidence then goes to /tmp, not to /verif/evidence).",
}
json.dump(man, open(os.path.join(os.path.dirname(__file__), "..", "MANIFEST.json"), "w"), indent=1)
try:
    sys.path.insert(0, "/verif/.deps")
    import jsonschema
    jsonschema.validate(man, json.load(open("/verif/schemas/MANIFEST.schema.json")))
    print("MANIFEST valid;", len(checks), "checks,", len(na), "not yet claimed")
except ImportError:
    print("written (jsonschema missing)")
