#!/venv/bin/python
"""tools/sweep_seeded.py [--tier quick] [--only C03-A,...] [--extra C11]

Re-runs every seeded change under /verif/seeded against the check of the property it breaks (plus
the checks named in meta.json "also_run" / --extra), refreshes meta.json (confirmed, caught_by,
check_runs of this sweep) and rewrites /verif/seeded/README.md. /repo is restored after each change.
"""
import argparse
import json
import os
import subprocess
import sys

VERIF = os.path.dirname(os.path.dirname(os.path.abspath(__file__)))
SEEDED = os.path.join(VERIF, "seeded")


def write_readme():
    rows = []
    for d in sorted(os.listdir(SEEDED)):
        mp = os.path.join(SEEDED, d, "meta.json")
        if os.path.exists(mp):
            rows.append(json.load(open(mp)))
    with open(os.path.join(SEEDED, "README.md"), "w") as f:
        f.write(
            "# Seeded changes (written by independent sub-agents from the property text alone)\n\n"
            "Each directory: patch.diff (apply with `git -C /repo apply`, or let tools/try_mutant.py apply it in a scratch worktree), "
            "demo.py (exits 1 with the change, 0 without; run with cwd = repository root and PYTHONPATH=<root>/src:<root>), notes.md (the author's notes), meta.json.\n"
            "Re-run everything with tools/sweep_seeded.py (quick tier). Letters A-B: round 1 (two per property), C-E: round 2 (three per property), F-H: round 3 (three per property), I-J: round 4 (two each for C01, C04, C05, C08, C12-C15).\n\n"
            "| id | breaks | what | needs to manifest | confirmed | caught by (quick tier) |\n|---|---|---|---|---|---|\n"
        )
        for m in rows:
            cb = ", ".join(m["caught_by"]) if m["caught_by"] else ("not caught - see meta.json not_caught_note" if m.get("not_caught_note") else ("no longer breaks the property on the repaired tree - see meta.json neutralised_note" if m.get("neutralised_note") else "**missed**"))
            f.write(f"| {m['id']} | {m['breaks_property']} | {m.get('what', '')} | {m.get('needs_to_manifest', '')} | {'yes' if m['confirmed'] else ('was (before a later fix)' if m.get('neutralised_note') else 'NO')} | {cb} |\n")


def main():
    ap = argparse.ArgumentParser()
    ap.add_argument("--tier", default="quick")
    ap.add_argument("--only")
    ap.add_argument("--extra", default="")
    a = ap.parse_args()
    ids = sorted(d for d in os.listdir(SEEDED) if os.path.isdir(os.path.join(SEEDED, d)))
    if a.only:
        ids = [i for i in ids if i in a.only.split(",")]
    rows = []
    for mid in ids:
        d = os.path.join(SEEDED, mid)
        meta = json.load(open(os.path.join(d, "meta.json")))
        prop = meta["breaks_property"]
        checks = [prop] + [c for c in meta.get("also_run", []) if c != prop] + [c for c in a.extra.split(",") if c and c != prop]
        cmd = [os.path.join(VERIF, "tools", "try_mutant.py"), os.path.join(d, "patch.diff"), "--demo", os.path.join(d, "demo.py"), "--tier", a.tier] + checks
        p = subprocess.run(cmd, capture_output=True, text=True)
        out = p.stdout
        try:
            js = json.loads(out[out.index("{") : out.rindex("}") + 1])
        except Exception:
            print(mid, "FAILED TO RUN", out[-400:], p.stderr[-400:])
            continue
        ok = js.get("suite_passed") == 78 and not js.get("suite_failed") and js.get("demo_with_change_exit") == 1 and js.get("demo_without_change_exit") == 0
        meta["confirmed"] = ok
        meta["confirmation"] = {
            "suite_with_change": f"{js.get('suite_passed')} passed" + (" (failures!)" if js.get("suite_failed") else ""),
            "demo_with_change_exit": js.get("demo_with_change_exit"),
            "demo_without_change_exit": js.get("demo_without_change_exit"),
            "how": "tools/try_mutant.py: git -C /repo apply patch.diff; pytest; PYTHONPATH=/repo/src:/repo python demo.py (cwd /repo); ./check <ids>; git -C /repo checkout -- .; demo again",
        }
        runs = []
        for c, r in js.get("checks", {}).items():
            runs.append({"check": c, "tier": a.tier, "exit": r["exit"], "caught": r["exit"] == 1, "wall_s": r["wall"], "first_lines": r["lines"][:2]})
        meta["check_runs"] = runs
        meta["caught_by"] = sorted({r["check"] for r in runs if r["caught"]})
        json.dump(meta, open(os.path.join(d, "meta.json"), "w"), indent=1)
        rows.append((mid, prop, ok, meta["caught_by"], meta.get("what", ""), meta.get("needs_to_manifest", "")))
        print(mid, "confirmed" if ok else "NOT-CONFIRMED", "caught by", meta["caught_by"], flush=True)
    write_readme()
    return 0


if __name__ == "__main__":
    sys.exit(main())
