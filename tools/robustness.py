#!/venv/bin/python
"""tools/robustness.py [--seeds 2,3,5] [--only ids]: how reliably does the quick tier of the owning check catch each seeded
change? Runs try_mutant (scratch worktree, suite and demo skipped) per seed and records detection_by_seed in meta.json."""
import argparse, json, os, subprocess, sys
VERIF = os.path.dirname(os.path.dirname(os.path.abspath(__file__)))
SEEDED = os.path.join(VERIF, "seeded")
ap = argparse.ArgumentParser(); ap.add_argument("--seeds", default="2,3,5"); ap.add_argument("--only"); a = ap.parse_args()
ids = sorted(d for d in os.listdir(SEEDED) if os.path.isdir(os.path.join(SEEDED, d)))
if a.only: ids = [i for i in ids if i in a.only.split(",")]
for mid in ids:
    d = os.path.join(SEEDED, mid); meta = json.load(open(os.path.join(d, "meta.json")))
    if meta.get("not_caught_note"): continue
    prop = meta["breaks_property"]; res = dict(meta.get("detection_by_seed", {}))
    for sd in a.seeds.split(","):
        p = subprocess.run([os.path.join(VERIF, "tools", "try_mutant.py"), os.path.join(d, "patch.diff"), "--skip-suite", "--seed", sd, prop], capture_output=True, text=True)
        res[sd] = ("CAUGHT-BY: " + prop) in p.stdout
    meta["detection_by_seed"] = res
    json.dump(meta, open(os.path.join(d, "meta.json"), "w"), indent=1)
    print(mid, res, flush=True)
