#!/venv/bin/python
"""tools/mutate.py gen | suite [--jobs 8] | checks [--limit N] | report

Mechanical mutation run over src/cfdppy (token-level operator / constant / boolean mutations and
single-statement deletions). `gen` writes /tmp/mutrun/mutants.json; `suite` runs the pinned 78 tests
against every mutant in a pool of scratch worktrees (survivors = compile + 78 passed); `checks` runs the
quick tier of the checks that cover the mutated file against every survivor (scratch worktree, /repo is
never touched); `report` summarises. State lives under /tmp/mutrun (throw-away); the summary that is
worth keeping is copied to /verif/seeded/mutation_run.json by `report`.
"""
import ast
import io
import json
import os
import subprocess
import sys
import tokenize
from concurrent.futures import ThreadPoolExecutor

REPO = "/repo"
VERIF = os.path.dirname(os.path.dirname(os.path.abspath(__file__)))
RUN = "/tmp/mutrun"
FILES = ["src/cfdppy/handler/source.py", "src/cfdppy/handler/dest.py", "src/cfdppy/filestore.py", "src/cfdppy/mib.py", "src/cfdppy/crc.py", "src/cfdppy/handler/common.py", "src/cfdppy/user.py", "src/cfdppy/handler/defs.py"]
CHECKS = {
    "src/cfdppy/handler/source.py": ["C07", "C02", "C08", "C12", "C19", "C03", "C04", "C13", "C14", "C15", "C10"],
    "src/cfdppy/handler/dest.py": ["C05", "C06", "C02", "C03", "C12", "C13", "C04", "C14", "C15", "C10", "C01"],
    "src/cfdppy/filestore.py": ["C09", "C17", "C02", "C05", "C16", "C07"],
    "src/cfdppy/mib.py": ["C14", "C04", "C11", "C02", "C19"],
    "src/cfdppy/crc.py": ["C09", "C02"],
    "src/cfdppy/handler/common.py": ["C20", "C02", "C10"],
    "src/cfdppy/user.py": ["C16", "C15", "C02"],
    "src/cfdppy/handler/defs.py": ["C02", "C11", "C07"],
}
SWAP = {"<": ["<="], "<=": ["<"], ">": [">="], ">=": [">"], "==": ["!="], "!=": ["=="], "+": ["-"], "-": ["+"], "and": ["or"], "or": ["and"], "True": ["False"], "False": ["True"], "is": [], "not": []}


def gen():
    os.makedirs(RUN, exist_ok=True)
    muts = []
    for rel in FILES:
        path = os.path.join(REPO, rel)
        src = open(path).read()
        lines = src.splitlines(keepends=True)
        tree = ast.parse(src)
        skip_lines = set()
        for node in ast.walk(tree):
            # no mutations inside logging calls, asserts, docstrings, imports, raise messages, type annotations of defs
            if isinstance(node, (ast.Import, ast.ImportFrom, ast.Assert)):
                skip_lines.update(range(node.lineno, node.end_lineno + 1))
            if isinstance(node, ast.Expr) and isinstance(node.value, ast.Constant) and isinstance(node.value.value, str):
                skip_lines.update(range(node.lineno, node.end_lineno + 1))
            if isinstance(node, ast.Call) and isinstance(node.func, ast.Attribute) and isinstance(node.func.value, ast.Name) and node.func.value.id == "_LOGGER":
                skip_lines.update(range(node.lineno, node.end_lineno + 1))
            if isinstance(node, (ast.FunctionDef,)):
                skip_lines.add(node.lineno)
            if isinstance(node, ast.AnnAssign) and node.value is None:
                skip_lines.update(range(node.lineno, node.end_lineno + 1))
        toks = list(tokenize.generate_tokens(io.StringIO(src).readline))
        for i, t in enumerate(toks):
            if t.start[0] in skip_lines:
                continue
            reps = []
            if t.type == tokenize.OP and t.string in SWAP:
                if t.string in ("+", "-") and (i == 0 or toks[i - 1].type == tokenize.OP and toks[i - 1].string in ("(", ",", "=", "[", "return", ":")):
                    continue  # unary
                reps = SWAP[t.string]
            elif t.type == tokenize.NAME and t.string in ("and", "or", "True", "False"):
                reps = SWAP[t.string]
            elif t.type == tokenize.NUMBER and t.string.isdigit():
                n = int(t.string)
                reps = [str(n + 1)] + ([str(n - 1)] if n > 0 else [])
            for r in reps:
                (l0, c0), (l1, c1) = t.start, t.end
                if l0 != l1:
                    continue
                new_line = lines[l0 - 1][:c0] + r + lines[l0 - 1][c1:]
                muts.append({"file": rel, "line": l0, "kind": f"{t.string}->{r}", "old": lines[l0 - 1], "new": new_line, "span": [l0, l0]})
        # single statement deletion: simple calls and assignments inside functions
        for node in ast.walk(tree):
            if isinstance(node, (ast.FunctionDef,)):
                for st in ast.walk(node):
                    if isinstance(st, (ast.Expr, ast.Assign, ast.AugAssign)) and st.lineno not in skip_lines:
                        if isinstance(st, ast.Expr) and not isinstance(st.value, ast.Call):
                            continue
                        indent = lines[st.lineno - 1][: len(lines[st.lineno - 1]) - len(lines[st.lineno - 1].lstrip())]
                        muts.append({"file": rel, "line": st.lineno, "kind": "delete-statement", "old": "".join(lines[st.lineno - 1 : st.end_lineno]), "new": indent + "pass\n", "span": [st.lineno, st.end_lineno]})
    # de-duplicate
    seen, out = set(), []
    for m in muts:
        k = (m["file"], tuple(m["span"]), m["new"])
        if k not in seen:
            seen.add(k)
            m["id"] = len(out)
            out.append(m)
    json.dump(out, open(os.path.join(RUN, "mutants.json"), "w"), indent=0)
    print(len(out), "mutants")


def apply(m, root):
    path = os.path.join(root, m["file"])
    lines = open(os.path.join(REPO, m["file"])).read().splitlines(keepends=True)
    a, b = m["span"]
    lines[a - 1 : b] = [m["new"]]
    open(path, "w").write("".join(lines))


def restore(m, root):
    open(os.path.join(root, m["file"]), "w").write(open(os.path.join(REPO, m["file"])).read())


def suite(jobs):
    muts = json.load(open(os.path.join(RUN, "mutants.json")))
    res_path = os.path.join(RUN, "suite.json")
    res = json.load(open(res_path)) if os.path.exists(res_path) else {}
    roots = []
    for j in range(jobs):
        r = os.path.join(RUN, f"wt{j}")
        if not os.path.exists(r):
            subprocess.run(f"git worktree add -q --detach {r} HEAD", shell=True, cwd=REPO, check=True)
        roots.append(r)

    def work(j):
        for m in muts[j::jobs]:
            if str(m["id"]) in res:
                continue
            root = roots[j]
            apply(m, root)
            try:
                p = subprocess.run("/venv/bin/python -m pytest -x -q -p no:cacheprovider --timeout=120 2>&1 | tail -2", shell=True, cwd=root, env={**os.environ, "PYTHONPATH": f"{root}/src"}, capture_output=True, text=True, timeout=600)
                out = p.stdout
                res[str(m["id"])] = "survived" if ("78 passed" in out and "failed" not in out and "error" not in out) else "killed"
            except subprocess.TimeoutExpired:
                res[str(m["id"])] = "timeout"
            finally:
                restore(m, root)
            if len(res) % 25 == 0:
                json.dump(res, open(res_path, "w"))

    with ThreadPoolExecutor(jobs) as ex:
        list(ex.map(work, range(jobs)))
    json.dump(res, open(res_path, "w"))
    n = sum(1 for v in res.values() if v == "survived")
    print(len(res), "run,", n, "survived the suite")


def _all_cres():
    import glob

    out = {}
    for fn in glob.glob(os.path.join(RUN, "checks*.json")):
        out.update(json.load(open(fn)))
    return out


def checks(limit, tier="quick", part=0, nparts=1):
    muts = json.load(open(os.path.join(RUN, "mutants.json")))
    sres = json.load(open(os.path.join(RUN, "suite.json")))
    cpath = os.path.join(RUN, f"checks{part}.json")
    cres = _all_cres()
    mine = json.load(open(cpath)) if os.path.exists(cpath) else {}
    root = os.path.join(RUN, f"wtc{part}")
    if not os.path.exists(root):
        subprocess.run(f"git worktree add -q --detach {root} HEAD", shell=True, cwd=REPO, check=True)
    import re

    def trivial(m):
        o = m["old"]
        # enum members / class-level constants / default arguments / pure declarations: value changes are equivalent
        return bool(re.match(r"^\s*[A-Z][A-Z0-9_]*\s*(:\s*[\w\[\] |.]+)?\s*=\s*[-\w.()]+\s*$", o)) or o.lstrip().startswith("def ") or (m["kind"] != "delete-statement" and re.search(r":\s*[\w\[\] |.]+\s*=\s*(True|False|\d+(\.\d+)?)\s*,?\s*$", o) is not None)

    todo = [m for m in muts if sres.get(str(m["id"])) == "survived" and str(m["id"]) not in cres and not trivial(m)]
    print(len(todo), "survivors to check (trivial constant / default mutations skipped)", flush=True)
    # spread over the files round-robin so that a partial run samples all of them
    byfile = {}
    for m in todo:
        byfile.setdefault(m["file"], []).append(m)
    order = []
    while any(byfile.values()):
        for f in list(byfile):
            if byfile[f]:
                order.append(byfile[f].pop(0))
    for m in order[part::nparts][:limit]:
        apply(m, root)
        caught, errs = None, []
        try:
            for c in CHECKS[m["file"]]:
                p = subprocess.run(f"./check {c} --tier {tier}", shell=True, cwd=VERIF, env={**os.environ, "CFDPPY_VERIF_SCRATCH_REPO": root}, capture_output=True, text=True, timeout=1800)
                if p.returncode == 1:
                    caught = c
                    break
                if p.returncode == 2:
                    errs.append(c)
        finally:
            restore(m, root)
        mine[str(m["id"])] = {"caught_by": caught, "harness_errors": errs}
        json.dump(mine, open(cpath, "w"))
        print(m["id"], m["file"].split("/")[-1], m["line"], m["kind"], "->", caught or ("EXIT2:" + ",".join(errs) if errs else "NOT CAUGHT"), flush=True)


def report():
    muts = json.load(open(os.path.join(RUN, "mutants.json")))
    sres = json.load(open(os.path.join(RUN, "suite.json")))
    cres = _all_cres()
    surv = [m for m in muts if sres.get(str(m["id"])) == "survived"]
    done = [m for m in surv if str(m["id"]) in cres]
    caught = [m for m in done if cres[str(m["id"])]["caught_by"]]
    missed = [m for m in done if not cres[str(m["id"])]["caught_by"]]
    summ = {
        "mutants": len(muts), "suite_run": len(sres), "survived_suite": len(surv), "checked": len(done), "caught": len(caught),
        "not_caught": [{"id": m["id"], "file": m["file"], "line": m["line"], "kind": m["kind"], "old": m["old"].strip()[:160], "new": m["new"].strip()[:160], "harness_errors": cres[str(m["id"])]["harness_errors"]} for m in missed],
        "caught_by_histogram": {},
    }
    for m in caught:
        c = cres[str(m["id"])]["caught_by"]
        summ["caught_by_histogram"][c] = summ["caught_by_histogram"].get(c, 0) + 1
    json.dump(summ, open(os.path.join(RUN, "report.json"), "w"), indent=1)
    print(json.dumps({k: v for k, v in summ.items() if k != "not_caught"}, indent=1))
    for x in summ["not_caught"]:
        print("NOT CAUGHT", x["id"], x["file"].split("/")[-1], x["line"], x["kind"], "|", x["old"], "=>", x["new"], x["harness_errors"] or "")


if __name__ == "__main__":
    cmd = sys.argv[1]
    if cmd == "gen":
        gen()
    elif cmd == "suite":
        suite(int(sys.argv[sys.argv.index("--jobs") + 1]) if "--jobs" in sys.argv else 8)
    elif cmd == "checks":
        pt = sys.argv[sys.argv.index("--part") + 1].split("/") if "--part" in sys.argv else ["0", "1"]
        checks(int(sys.argv[sys.argv.index("--limit") + 1]) if "--limit" in sys.argv else 10**9, part=int(pt[0]), nparts=int(pt[1]))
    elif cmd == "report":
        report()
    elif cmd == "one":
        # tools/mutate.py one <id> C15 C20 ... : run the named checks against one mutant
        muts = json.load(open(os.path.join(RUN, "mutants.json")))
        m = muts[int(sys.argv[2])]
        root = os.path.join(RUN, "wtone")
        if not os.path.exists(root):
            subprocess.run(f"git worktree add -q --detach {root} HEAD", shell=True, cwd=REPO, check=True)
        apply(m, root)
        try:
            print(m["file"], m["line"], m["kind"], "|", m["old"].strip(), "=>", m["new"].strip())
            for c in sys.argv[3:]:
                p = subprocess.run(f"./check {c} --tier quick", shell=True, cwd=VERIF, env={**os.environ, "CFDPPY_VERIF_SCRATCH_REPO": root}, capture_output=True, text=True, timeout=1800)
                lines = [l for l in p.stdout.splitlines() if "sig=" in l or "HARNESS" in l]
                print(c, "exit", p.returncode, lines[:2])
        finally:
            restore(m, root)
