#!/venv/bin/python
"""Sensitivity helper (R6): apply one textual mutation to /repo's working tree, run checks, revert.

usage: tools/mut.py <file-relative-to-/repo> <old> <new> <PROP>[,<PROP>...] [--tests] [--count N]
Exit status 0 if every listed check reported a violation (mutant killed).
The mutation is never committed; /repo is restored with `git checkout -- <file>` afterwards.
"""
import subprocess, sys, os

def main():
    args = [a for a in sys.argv[1:] if not a.startswith("--")]
    flags = [a for a in sys.argv[1:] if a.startswith("--")]
    rel, old, new, props = args[:4]
    path = os.path.join("/repo", rel)
    src = open(path).read()
    n = src.count(old)
    want = 1
    for f in flags:
        if f.startswith("--count="):
            want = int(f.split("=")[1])
    if n != want:
        print(f"pattern occurs {n} times, expected {want}"); return 3
    assert subprocess.run(["git", "-C", "/repo", "status", "--porcelain", "--", "src"], capture_output=True, text=True).stdout.strip() == "", "repo dirty"
    open(path, "w").write(src.replace(old, new))
    killed = True
    before = set(os.listdir("/verif/replays"))
    try:
        if "--tests" in flags:
            r = subprocess.run("cd /repo && /venv/bin/python -m pytest -q -p no:cacheprovider -x 2>&1 | tail -3", shell=True, capture_output=True, text=True)
            print("TESTS:", r.stdout.strip().splitlines()[-1] if r.stdout.strip() else r.stderr[-200:])
        for p in props.split(","):
            r = subprocess.run(["/verif/check", p, "--tier", "quick"], capture_output=True, text=True, cwd="/verif", env={**os.environ, "VERIF_NO_EVIDENCE": "1"})
            lines = [l for l in r.stdout.splitlines() if l.startswith(("VIOLATION", "HARNESS", "INCONCLUSIVE", "  clause"))]
            print(f"{p}: exit={r.returncode}", *lines[:6], sep="\n   ")
            if r.returncode != 1:
                killed = False
    finally:
        subprocess.run(["git", "-C", "/repo", "checkout", "--", rel], check=True)
        subprocess.run("git -C /verif checkout -- evidence 2>/dev/null; true", shell=True)
        for f in set(os.listdir("/verif/replays")) - before:
            os.remove(os.path.join("/verif/replays", f))
    print("KILLED" if killed else "SURVIVED")
    return 0 if killed else 1

sys.exit(main())
