"""Reference models, written independently of the code under test (DESIGN.md 3.8)."""
from __future__ import annotations

import zlib


# ------------------------------------------------------------------ interval sets
class IntervalSet:
    """Set of integers kept as sorted disjoint half-open ranges."""

    def __init__(self, ranges=()):
        self.r = []
        for s, e in ranges:
            self.add(s, e)

    def copy(self):
        n = IntervalSet()
        n.r = list(self.r)
        return n

    def add(self, s, e):
        if e <= s:
            return
        out = []
        for a, b in self.r:
            if b < s or a > e:
                out.append((a, b))
            else:
                s, e = min(s, a), max(e, b)
        out.append((s, e))
        out.sort()
        self.r = out

    def remove(self, s, e):
        if e <= s:
            return
        out = []
        for a, b in self.r:
            if b <= s or a >= e:
                out.append((a, b))
            else:
                if a < s:
                    out.append((a, s))
                if b > e:
                    out.append((e, b))
        self.r = out

    def intersects(self, s, e):
        return any(a < e and s < b for a, b in self.r) if e > s else False

    def contains(self, s, e):
        return any(a <= s and e <= b for a, b in self.r) if e > s else True

    def complement(self, lo, hi):
        out = IntervalSet()
        cur = lo
        for a, b in self.r:
            if b <= lo:
                continue
            if a >= hi:
                break
            if a > cur:
                out.r.append((cur, min(a, hi)))
            cur = max(cur, b)
        if cur < hi:
            out.r.append((cur, hi))
        return out

    def clipped(self, lo, hi):
        out = IntervalSet()
        for a, b in self.r:
            a2, b2 = max(a, lo), min(b, hi)
            if a2 < b2:
                out.r.append((a2, b2))
        return out

    def size(self):
        return sum(b - a for a, b in self.r)

    def as_list(self):
        return list(self.r)

    def __eq__(self, other):
        return isinstance(other, IntervalSet) and self.r == other.r

    def __repr__(self):
        return f"IntervalSet({self.r})"


def ranges_to_set(ranges):
    return IntervalSet(ranges)


# ------------------------------------------------------------------ checksums
def _make_table(poly):
    t = []
    for i in range(256):
        c = i
        for _ in range(8):
            c = (c >> 1) ^ poly if c & 1 else c >> 1
        t.append(c)
    return t


_T32 = _make_table(0xEDB88320)
_T32C = _make_table(0x82F63B78)


def _crc(table, data: bytes) -> int:
    c = 0xFFFFFFFF
    for b in data:
        c = table[(c ^ b) & 0xFF] ^ (c >> 8)
    return c ^ 0xFFFFFFFF


def crc32(data: bytes) -> int:
    return _crc(_T32, data)


def crc32c(data: bytes) -> int:
    return _crc(_T32C, data)


def modular(data: bytes) -> int:
    total = 0
    for i in range(0, len(data), 4):
        w = data[i : i + 4]
        w = w + b"\x00" * (4 - len(w))
        total += (w[0] << 24) | (w[1] << 16) | (w[2] << 8) | w[3]
    return total % (1 << 32)


def ref_checksum(kind: str, data: bytes) -> bytes:
    """kind in CRC_32, CRC_32C, MODULAR, NULL_CHECKSUM"""
    if kind == "CRC_32":
        return crc32(data).to_bytes(4, "big")
    if kind == "CRC_32C":
        return crc32c(data).to_bytes(4, "big")
    if kind == "MODULAR":
        return modular(data).to_bytes(4, "big")
    if kind == "NULL_CHECKSUM":
        return b"\x00\x00\x00\x00"
    raise ValueError(kind)


def selfcheck():
    """Published check values; run at start-up of every check that uses the references."""
    assert crc32(b"123456789") == 0xCBF43926
    assert crc32c(b"123456789") == 0xE3069283
    for d in (b"", b"a", b"hello world" * 7):
        assert crc32(d) == zlib.crc32(d)
    assert modular(bytes([1, 2, 3, 4, 5])) == (0x01020304 + 0x05000000) % (1 << 32)
    assert modular(b"") == 0


# ------------------------------------------------------------------ file write model
class FileWriteModel:
    def __init__(self):
        self.data = bytearray()

    def reset(self):
        self.data = bytearray()

    def write(self, offset: int, payload: bytes):
        if not payload:
            return
        if offset > len(self.data):
            self.data.extend(b"\x00" * (offset - len(self.data)))
        self.data[offset : offset + len(payload)] = payload


# ------------------------------------------------------------------ PDU size arithmetic
def header_len(id_width: int, seq_width: int) -> int:
    # CCSDS 727.0-B-5 table 5-1: 4 fixed octets, two entity ids of equal length, sequence number
    return 4 + 2 * id_width + seq_width


def fd_overhead(id_width, seq_width, crc: bool, large: bool = False) -> int:
    return header_len(id_width, seq_width) + (8 if large else 4) + (2 if crc else 0)


def eof_len(id_width, seq_width, crc: bool, large: bool = False, fault_loc_len: int = 0) -> int:
    # directive code 1 + condition 1 + checksum 4 + size 4/8 (+ TLV)
    return header_len(id_width, seq_width) + 1 + 1 + 4 + (8 if large else 4) + fault_loc_len + (2 if crc else 0)


def ack_len(id_width, seq_width, crc: bool) -> int:
    return header_len(id_width, seq_width) + 3 + (2 if crc else 0)


def nak_len(id_width, seq_width, crc: bool, nreq: int, large: bool = False) -> int:
    w = 8 if large else 4
    return header_len(id_width, seq_width) + 1 + 2 * w + nreq * 2 * w + (2 if crc else 0)


# ------------------------------------------------------------------ file contents
def file_bytes(spec):
    """spec: None (metadata-only) | bytes | {"pat": bytes, "size": n}.
    Files up to len(pat) bytes are arbitrary; longer ones continue with a position-dependent
    sequence so that misplaced, duplicated or missing segments change the content."""
    if spec is None or isinstance(spec, (bytes, bytearray)):
        return spec
    pat, n = spec["pat"] or b"\x00", spec["size"]
    if n <= len(pat):
        return bytes(pat[:n])
    L = len(pat)
    return bytes((pat[i % L] + (i // L) * 7 + (i >> 8) * 13 + i) & 0xFF for i in range(n))


