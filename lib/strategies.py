"""Hypothesis strategies shared by the transfer checks (DESIGN.md 3.6)."""
from __future__ import annotations

from hypothesis import strategies as st

from . import models
from .sim import DEFAULT_CFG, eff_mode, id_width, min_packet_len, norm_cfg


from .models import file_bytes  # noqa: E402,F401


def eff_seg_len(cfg) -> int:
    cfg = norm_cfg(cfg)
    derived = cfg["max_pkt"] - models.fd_overhead(id_width(cfg), cfg["seq_width"] // 8, cfg["pdu_crc"])
    if cfg["max_seg"] is not None and cfg["max_seg"] < derived:
        return cfg["max_seg"]
    return derived


@st.composite
def entity_ids(draw):
    w1 = draw(st.sampled_from([1, 2, 4, 8]))
    w2 = draw(st.sampled_from([1, 2, 4, 8]))
    v1 = draw(st.one_of(st.integers(0, 3), st.integers(0, (1 << (8 * w1)) - 1)))
    v2 = draw(st.one_of(st.integers(0, 3), st.integers(0, (1 << (8 * w2)) - 1)))
    if v1 == v2:
        v2 = (v2 + 1) % (1 << (8 * w2))
        if v1 == v2:
            v1 = (v1 + 1) % (1 << (8 * w1))
    return [w1, v1], [w2, v2]


@st.composite
def cfgs(
    draw,
    modes=("ACK", "NAK"),
    csums=("CRC_32", "CRC_32C", "MODULAR", "NULL_CHECKSUM"),
    vary_limits=False,
    max_limit=5,
    vary_indications=False,
    pkt_slack=st.one_of(st.integers(0, 8), st.integers(0, 200)),
    transports=("obj", "wire"),
    request_overrides=True,
):
    cfg = {}
    mode = draw(st.sampled_from(modes))
    if request_overrides:
        style = draw(st.integers(0, 2))
        if style == 0:
            cfg["mode"], cfg["req_mode"] = mode, None
        elif style == 1:
            cfg["mode"], cfg["req_mode"] = ("NAK" if mode == "ACK" else "ACK"), mode
        else:
            cfg["mode"], cfg["req_mode"] = mode, mode
        closure = draw(st.booleans())
        style = draw(st.integers(0, 2))
        if style == 0:
            cfg["closure"], cfg["req_closure"] = closure, None
        elif style == 1:
            cfg["closure"], cfg["req_closure"] = (not closure), closure
        else:
            cfg["closure"], cfg["req_closure"] = closure, closure
    else:
        cfg["mode"], cfg["req_mode"] = mode, None
        cfg["closure"], cfg["req_closure"] = draw(st.booleans()), None
    cfg["crc_type"] = draw(st.sampled_from(csums))
    cfg["pdu_crc"] = draw(st.booleans())
    cfg["src_id"], cfg["dst_id"] = draw(entity_ids())
    bits = draw(st.sampled_from([8, 16, 32]))
    cfg["seq_width"] = bits
    cfg["seq_start"] = draw(st.one_of(st.sampled_from([0, 1, (1 << bits) - 1, (1 << bits) - 2]), st.integers(0, (1 << bits) - 1)))
    cfg["max_seg"] = draw(st.one_of(st.none(), st.sampled_from([1, 2, 3]), st.integers(4, 16), st.integers(17, 300)))
    cfg["immediate_nak"] = draw(st.booleans())
    cfg["disposition"] = draw(st.booleans())
    cfg["transport"] = draw(st.sampled_from(transports))
    if vary_limits:
        cfg["ack_limit"] = draw(st.integers(1, max_limit))
        cfg["nak_limit"] = draw(st.integers(1, max_limit))
        cfg["check_limit"] = draw(st.integers(1, max_limit))
    ms = st.sampled_from([2, 3, 10, 500, 1000, 4999])
    cfg["ack_ms"], cfg["nak_ms"] = draw(ms), draw(ms)
    cfg["chk_ms_src"], cfg["chk_ms_dst"] = draw(ms), draw(ms)
    if vary_indications:
        cfg["ind_src"] = draw(st.lists(st.booleans(), min_size=4, max_size=4))
        cfg["ind_dst"] = draw(st.lists(st.booleans(), min_size=4, max_size=4))
    full = norm_cfg(cfg)
    cfg["max_pkt"] = min_packet_len(full) + draw(pkt_slack)
    return cfg


@st.composite
def file_specs(draw, cfg, max_bytes=4096, max_segments=40, allow_none=False):
    """File sizes biased to 0, 1, seg-1, seg, seg+1, k*seg, k*seg+r."""
    if allow_none and draw(st.integers(0, 9)) == 0:
        return None
    seg = eff_seg_len(cfg)
    kmax = max(1, min(max_segments, max_bytes // max(seg, 1)))
    k = draw(st.integers(1, kmax))
    choice = draw(st.integers(0, 8))
    if choice == 0:
        size = 0
    elif choice == 1:
        size = 1
    elif choice == 2:
        size = max(0, seg - 1)
    elif choice == 3:
        size = seg
    elif choice == 4:
        size = seg + 1
    elif choice in (5, 6):
        size = k * seg
    else:
        size = k * seg + draw(st.integers(0, max(0, seg - 1)))
    size = min(size, max_bytes)
    pat = draw(st.binary(min_size=1, max_size=32))
    return {"pat": pat, "size": size}


def size_class(size, seg):
    if size is None:
        return "metadata-only"
    if size == 0:
        return "0"
    if size < seg:
        return "<seg"
    if size == seg:
        return "seg"
    if size % seg == 0:
        return "k*seg"
    if size % seg == 1:
        return "k*seg+1"
    if size % seg == seg - 1:
        return "k*seg-1"
    return "k*seg+r"


def pacing_scripts(max_len=40):
    op = st.sampled_from(["s", "d", "sn", "dn"])
    burst = st.builds(lambda o, n: [o] * n, st.sampled_from(["s", "sn", "d"]), st.integers(2, 60))
    return st.one_of(
        st.just([]),
        st.lists(op, max_size=max_len),
        burst,
        st.builds(lambda a, b: a + b, burst, st.lists(op, max_size=10)),
    )


def pacing_class(p):
    if not p:
        return "round-robin"
    if len(set(p)) == 1:
        return "burst-" + p[0]
    return "mixed"


FAULT_KINDS = ["MD", "FD", "EOF", "ACK_EOF", "ACK_FIN", "NAK", "FIN"]


@st.composite
def fault_schedules(draw, max_faults=6, actions=("drop", "dup", "delay", "hold"), kinds=FAULT_KINDS, max_occ=6, flips=False):
    n = draw(st.integers(0, max_faults))
    out = []
    for _ in range(n):
        kind = draw(st.sampled_from(kinds))
        occ = draw(st.integers(0, max_occ if kind in ("FD", "NAK") else 3))
        acts = list(actions)
        if flips and kind == "FD":
            acts.append("flip")
        action = draw(st.sampled_from(acts))
        if action == "delay":
            arg = draw(st.integers(1, 5))
        elif action == "hold":
            arg = draw(st.integers(1, 3))
        elif action == "flip":
            arg = draw(st.integers(0, 4095))
        else:
            arg = 0
        out.append([kind, occ, action, arg])
    return out


def user_messages():
    """Message-to-user payloads. spacepackets 0.26.1 MessageToUserTlv.is_reserved_cfdp_message()
    decodes the first four bytes as UTF-8 and raises UnicodeDecodeError otherwise (dependency
    quirk, not cfdp-py); payloads of >= 5 bytes therefore start with four ASCII bytes."""
    ascii4 = st.text(alphabet=st.characters(min_codepoint=32, max_codepoint=126), min_size=4, max_size=4).map(lambda t: t.encode())
    return st.one_of(
        st.binary(min_size=0, max_size=4),
        st.builds(lambda a, b: a + b, ascii4, st.binary(min_size=1, max_size=10)),
    )


@st.composite
def request_options(draw):
    """Optional TLVs of a put request (filestore requests incl. the empty list, flow label, fault
    handler overrides); they all travel in the Metadata PDU."""
    o = {}
    if draw(st.booleans()):
        o["fs_requests"] = draw(st.lists(st.tuples(st.sampled_from([0, 1, 5, 6]), st.sampled_from(["a", "tmp/x.bin", "d1"])).map(list), max_size=2))
    if draw(st.booleans()):
        o["flow_label"] = draw(st.binary(min_size=0, max_size=6))
    if draw(st.integers(0, 2)) == 0:
        o["fh_overrides"] = draw(st.lists(st.tuples(st.sampled_from(["FILE_CHECKSUM_FAILURE", "CHECK_LIMIT_REACHED", "NAK_LIMIT_REACHED"]), st.sampled_from(["IGNORE", "CANCEL", "ABANDON"])).map(list), min_size=1, max_size=2))
    return o
