"""Coverage-guided stage: `python -m lib.fuzz <PROP> --runs N --seed S --out DIR`

Drives the Hypothesis property of a check module through atheris / libFuzzer
(`given(...).hypothesis.fuzz_one_input`), with `cfdppy` instrumented for coverage. The semantic
oracle is the check's own `evaluate()`; a verdict whose signature is not listed as a known finding
is written to DIR/viol-<hash>.json (the reproducible unit is that JSON case, replayable with
`./check <PROP> --replay`) and the process stops. Statistics are written to DIR/stats.json every
200 executions because atexit handlers do not run under libFuzzer.

One process = one libFuzzer campaign (`-seed=S -runs=N`, empty corpus in DIR/corpus); the check's
thorough tier starts one per shard with different seeds.
"""
from __future__ import annotations

import argparse
import json
import logging
import os
import sys


def main():
    ap = argparse.ArgumentParser()
    ap.add_argument("prop")
    ap.add_argument("--runs", type=int, default=2000)
    ap.add_argument("--seed", type=int, default=1)
    ap.add_argument("--out", required=True)
    a = ap.parse_args()
    os.makedirs(os.path.join(a.out, "corpus"), exist_ok=True)
    logging.disable(logging.CRITICAL)
    import atheris

    with atheris.instrument_imports(include=["cfdppy"], enable_loader_override=False):
        import cfdppy.filestore  # noqa: F401
        import cfdppy.handler.dest  # noqa: F401
        import cfdppy.handler.source  # noqa: F401
        import cfdppy.mib  # noqa: F401
        import cfdppy.user  # noqa: F401
    import importlib

    from hypothesis import HealthCheck, given, settings

    from . import core

    mod = importlib.import_module(f"lib.props.{a.prop.lower()}")
    known = core.load_known(a.prop.upper())
    stats = {"executions": 0, "nontrivial": 0, "classes": {}, "violations": 0, "invalid": 0}
    nt_seen = set()

    def flush():
        with open(os.path.join(a.out, "stats.json"), "w") as f:
            json.dump({**stats, "nt_hashes": sorted(nt_seen)}, f)

    @settings(database=None, deadline=None, suppress_health_check=list(HealthCheck), report_multiple_bugs=False)
    @given((getattr(mod, "case_strategy", None) or mod.sampled_case)())
    def prop(case):
        res = mod.evaluate(case)
        stats["executions"] += 1
        for c in res.classes:
            stats["classes"][c] = stats["classes"].get(c, 0) + 1
        if res.nontrivial:
            stats["nontrivial"] += 1
            nt_seen.add(core.case_hash(case))
        if stats["executions"] % 50 == 0:
            flush()
        unknown = [v for v in res.verdicts if known.match(v) is None]
        if unknown:
            stats["violations"] += 1
            name = f"viol-{core.case_hash([unknown[0]['sig'], core.to_jsonable(case)])[:10]}.json"
            with open(os.path.join(a.out, name), "w") as f:
                json.dump({"property": a.prop.upper(), "verdicts": unknown, "case": core.to_jsonable(case)}, f, indent=1, sort_keys=True)
            flush()
            raise AssertionError(unknown[0]["sig"])

    # Hypothesis needs a few hundred bytes to build one history; libFuzzer's length control would start with inputs of a
    # few bytes (all rejected as too short, no coverage, no growth). So: no length control, and a starting corpus of
    # pseudo-random byte strings derived from the seed (no structure, not taken from any test).
    import hashlib

    for i in range(8):
        blob = b"".join(hashlib.sha256(f"{a.seed}:{i}:{j}".encode()).digest() for j in range(64 + 32 * i))
        with open(os.path.join(a.out, "corpus", f"seed{i}"), "wb") as f:
            f.write(blob)
    argv = [sys.argv[0], f"-runs={a.runs}", f"-seed={a.seed}", "-max_len=8192", "-len_control=0", "-rss_limit_mb=4096", "-print_final_stats=0", f"-artifact_prefix={a.out}/crash-", os.path.join(a.out, "corpus")]
    flush()
    atheris.Setup(argv, prop.hypothesis.fuzz_one_input)
    try:
        atheris.Fuzz()
    finally:
        flush()


def campaign(prop: str, runs: int, seed: int, out, timeout: int = 3600):
    """Run one libFuzzer campaign in a child process and merge what it covered / found into `out`
    (a core.Out). Returns a short status string. A missing atheris is reported, not fatal."""
    import shutil
    import subprocess
    import tempfile

    from . import core

    try:
        import atheris  # noqa: F401
    except ImportError:
        out.notes.append("coverage-guided stage skipped: atheris not importable")
        return "skipped"
    root = "/dev/shm" if os.path.isdir("/dev/shm") and os.access("/dev/shm", os.W_OK) else None
    d = tempfile.mkdtemp(prefix=f"fz{prop}-", dir=root)
    try:
        cmd = [sys.executable, "-m", "lib.fuzz", prop, "--runs", str(runs), "--seed", str(seed % (1 << 31) or 1), "--out", d]
        try:
            p = subprocess.run(cmd, cwd=core.VERIF, capture_output=True, text=True, timeout=timeout)
            rc = p.returncode
        except subprocess.TimeoutExpired:
            rc = "timeout"
        st = {}
        sp = os.path.join(d, "stats.json")
        if os.path.exists(sp):
            with open(sp) as f:
                st = json.load(f)
        out.evaluations += st.get("executions", 0)
        for k, v in st.get("classes", {}).items():
            out.classes[k] += v
        out.nt.update(st.get("nt_hashes", []))
        out.extra["coverage_guided_executions"] = out.extra.get("coverage_guided_executions", 0) + st.get("executions", 0)
        nviol = 0
        for fn in sorted(os.listdir(d)):
            if fn.startswith("viol-"):
                with open(os.path.join(d, fn)) as f:
                    v = json.load(f)
                out.violations.append({"case": v["case"], "verdicts": v["verdicts"]})
                nviol += 1
        if not st:
            tail = (p.stderr or "")[-300:] if rc != "timeout" else ""
            raise core.HarnessError(f"coverage-guided stage produced no statistics (exit {rc}): {tail}")
        if rc not in (0, "timeout") and nviol == 0:
            # libFuzzer stopped without a recorded verdict: an exception outside evaluate() = harness problem
            tail = (p.stderr or "")[-400:]
            raise core.HarnessError(f"coverage-guided stage exited {rc} without a recorded verdict: {tail}")
        return f"exit {rc}, {st.get('executions', 0)} executions, {nviol} violations"
    finally:
        shutil.rmtree(d, ignore_errors=True)


def thorough_stage(prop: str, ctx, out, runs: int = 4000):
    """Called at the end of a check's shard(): in the thorough tier add one coverage-guided campaign per shard."""
    if ctx["tier"] != "thorough":
        return
    out.extra["coverage_guided_stage"] = f"atheris fuzz_one_input over the {prop} case strategy with cfdppy instrumented, pseudo-random starting corpus, {runs} runs per shard"
    campaign(prop, runs, ctx["seed"], out)


if __name__ == "__main__":
    main()
