"""Shared plumbing for all checks: deterministic seeds, result containers, the Hypothesis
search loop with collect/bucket/shrink/replay (DESIGN.md R3, R4, R5) and known-finding matching.

Nothing in here knows about CFDP.
"""
from __future__ import annotations

import base64
import hashlib
import json
import os
import sys
import time
import traceback
from collections import Counter

VERIF = os.path.dirname(os.path.dirname(os.path.abspath(__file__)))


class HarnessError(Exception):
    """The machinery itself is broken (exit 2, never a VIOLATION)."""


def seed_for(base: int, prop: str, shard: int, extra: str = "") -> int:
    h = hashlib.sha256(f"{base}:{prop}:{shard}:{extra}".encode()).hexdigest()
    return int(h[:15], 16)


def canon(obj) -> str:
    return json.dumps(obj, sort_keys=True, separators=(",", ":"), default=_json_default)


def case_hash(obj) -> str:
    return hashlib.sha256(canon(obj).encode()).hexdigest()[:16]


def _json_default(o):
    if isinstance(o, (bytes, bytearray)):
        return {"__b64__": base64.b64encode(bytes(o)).decode()}
    if isinstance(o, (set, frozenset)):
        return sorted(o)
    if isinstance(o, tuple):
        return list(o)
    return repr(o)


def to_jsonable(o):
    return json.loads(canon(o))


def from_jsonable(o):
    """Inverse of the bytes encoding used by canon()."""
    if isinstance(o, dict):
        if set(o.keys()) == {"__b64__"}:
            return base64.b64decode(o["__b64__"])
        return {k: from_jsonable(v) for k, v in o.items()}
    if isinstance(o, list):
        return [from_jsonable(v) for v in o]
    return o


def verdict(clause: str, sig: str, detail: str = "") -> dict:
    """A violation of one clause of one property. `sig` is the root-cause signature used for
    bucketing and for matching entries of known_findings.json."""
    return {"clause": clause, "sig": sig, "detail": str(detail)[:2000]}


class Result:
    """What evaluating one generated case produced."""

    __slots__ = ("verdicts", "nontrivial", "classes", "summary", "nt_key")

    def __init__(self, verdicts=None, nontrivial=False, classes=(), summary=None, nt_key=None):
        self.verdicts = list(verdicts or [])
        self.nontrivial = bool(nontrivial)
        self.classes = list(classes)
        self.summary = summary
        # key that identifies "the same case" for the distinct count; default: the whole case
        self.nt_key = nt_key


class Out:
    """Accumulated result of one shard (picklable via to_dict)."""

    MAX_SAMPLES = 8

    def __init__(self):
        self.evaluations = 0
        self.nt = set()
        self.classes = Counter()
        self.samples = []
        self.violations = []  # {"case":..., "verdicts":[...]} with unknown signatures
        self.known = Counter()  # finding id -> hits during the search
        self.notes = []
        self.exhaustive = None
        self.extra = {}
        self._sample_classes = Counter()
        self.nt_by_construction = 0  # non-trivial cases of an enumeration that visits each once

    def note_case(self, case, res: Result, distinct_by_construction: bool = False):
        self.evaluations += 1
        for c in res.classes:
            self.classes[c] += 1
        if res.nontrivial:
            if distinct_by_construction:
                self.nt_by_construction += 1
                new = True
            else:
                key = res.nt_key if res.nt_key is not None else case
                h = case_hash(key)
                new = h not in self.nt
                if new:
                    self.nt.add(h)
            if new and len(self.samples) < self.MAX_SAMPLES:
                ck = tuple(sorted(res.classes))
                if self._sample_classes[ck] < 2:
                    self._sample_classes[ck] += 1
                    self.samples.append(
                        {"case": to_jsonable(case), "observed": to_jsonable(res.summary)}
                    )

    def to_dict(self):
        return {
            "evaluations": self.evaluations,
            "nt": sorted(self.nt),
            "nt_by_construction": self.nt_by_construction,
            "classes": dict(self.classes),
            "samples": self.samples,
            "violations": self.violations,
            "known": dict(self.known),
            "notes": self.notes,
            "exhaustive": self.exhaustive,
            "extra": self.extra,
        }


class Known:
    """Entries of known_findings.json for one property."""

    def __init__(self, entries):
        self.entries = [e for e in entries if e.get("status") == "known"]
        self.fixed = [e for e in entries if e.get("status") == "fixed"]
        self.session = {}  # sig -> pseudo id, violations already collected in this run

    def match(self, v: dict):
        for e in self.entries:
            if _sig_match(e, v["sig"]):
                return e["id"]
        if v["sig"] in self.session:
            return self.session[v["sig"]]
        return None


def _sig_match(entry, sig: str) -> bool:
    if "sig" in entry and entry["sig"] == sig:
        return True
    for p in entry.get("sigs", []):
        if p == sig:
            return True
    return False


def load_known(prop: str) -> Known:
    path = os.path.join(VERIF, "known_findings.json")
    if not os.path.exists(path):
        return Known([])
    with open(path) as f:
        data = json.load(f)
    return Known([e for e in data.get("findings", []) if e.get("property") == prop])


class _Violation(Exception):
    pass


def hyp_search(
    out: Out,
    known: Known,
    strategy,
    evaluate,
    n_examples: int,
    seed: int,
    shrink: bool = True,
    max_rounds: int = 4,
):
    """Run `evaluate` over `n_examples` cases drawn from `strategy`.

    Violations whose signature is listed as a known finding are counted and the search goes on
    (R4 b). An unlisted violation makes Hypothesis shrink; the smallest failing case seen is kept,
    its signature is excluded for the rest of this shard and the search resumes with the
    remaining budget, so that several root causes are collected in one run (R4 collect).
    """
    import hypothesis
    from hypothesis import HealthCheck, Phase, given, settings

    remaining = n_examples
    rnd = 0
    while remaining > 0 and rnd < max_rounds:
        state = {"best": None, "n": 0}

        def prop(case):
            _state = state
            _state["n"] += 1
            res = evaluate(case)
            out.note_case(case, res)
            unknown = []
            for v in res.verdicts:
                kid = known.match(v)
                if kid is None:
                    unknown.append(v)
                else:
                    out.known[kid] += 1
            if unknown:
                size = len(canon(case))
                if _state["best"] is None or size <= _state["best"][0]:
                    _state["best"] = (size, to_jsonable(case), unknown)
                raise _Violation(unknown[0]["sig"])

        phases = [Phase.generate, Phase.shrink] if shrink else [Phase.generate]
        test = settings(
            max_examples=remaining,
            database=None,
            deadline=None,
            derandomize=False,
            report_multiple_bugs=False,
            phases=phases,
            suppress_health_check=list(HealthCheck),
            print_blob=False,
        )(hypothesis.seed(seed + rnd)(given(strategy)(prop)))
        try:
            test()
        except _Violation:
            pass
        except hypothesis.errors.Unsatisfiable as e:  # generator bug
            raise HarnessError(f"generator unsatisfiable: {e}")
        except hypothesis.errors.Flaky as e:
            # a property function that is not a pure function of its case is a harness bug
            raise HarnessError(f"flaky property function: {e}")
        if state["best"] is None:
            break
        _, case, verdicts = state["best"]
        out.violations.append({"case": case, "verdicts": verdicts})
        for v in verdicts:
            known.session[v["sig"]] = "session"
        remaining -= state["n"]
        rnd += 1
    return out


def enum_search(out: Out, known: Known, cases, evaluate, stop_after: int = 5, distinct=True):
    """Evaluate every case of an iterable (complete enumeration of a finite space; `distinct`
    says the iterable yields every case once, so distinctness needs no hashing)."""
    seen_sigs = set()
    for case in cases:
        res = evaluate(case)
        out.note_case(case, res, distinct_by_construction=distinct)
        unknown = []
        for v in res.verdicts:
            kid = known.match(v)
            if kid is None:
                unknown.append(v)
            else:
                out.known[kid] += 1
        if unknown:
            sig = unknown[0]["sig"]
            if sig not in seen_sigs and len(seen_sigs) < stop_after:
                seen_sigs.add(sig)
                out.violations.append({"case": to_jsonable(case), "verdicts": unknown})
    return out


def ddmin_list(items, fails):
    """Plain delta debugging over a list (used by enumerators whose cases are op lists)."""
    items = list(items)
    n = 2
    while len(items) >= 2:
        chunk = max(1, len(items) // n)
        reduced = False
        for i in range(0, len(items), chunk):
            cand = items[:i] + items[i + chunk :]
            if cand and fails(cand):
                items = cand
                n = max(n - 1, 2)
                reduced = True
                break
        if not reduced:
            if chunk == 1:
                break
            n = min(len(items), n * 2)
    return items


def fmt_exc(e: BaseException) -> str:
    return "".join(traceback.format_exception_only(type(e), e)).strip()[:500]
