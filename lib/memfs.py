"""A complete in-memory VirtualFilestore (DESIGN 3.7) and the host-file-system audit used by C16.

MemFilestore mirrors the observable behaviour of NativeFilestore for every method the handlers use
(codes, exceptions, zero-fill on writes beyond the end), keeps everything in dictionaries and never
touches the host. Its paths (/__cfdp_mem__/...) do not exist on the host file system.
"""
from __future__ import annotations

import builtins
import io
import os
import sys
from pathlib import Path, PurePosixPath

from spacepackets.cfdp.defs import ChecksumType
from spacepackets.cfdp.tlv import FilestoreResponseStatusCode as RC

from cfdppy.filestore import VirtualFilestore

from . import models

MEM_ROOT = "/__cfdp_mem__"

_CS = {ChecksumType.CRC_32: "CRC_32", ChecksumType.CRC_32C: "CRC_32C", ChecksumType.MODULAR: "MODULAR", ChecksumType.NULL_CHECKSUM: "NULL_CHECKSUM"}


def _k(p) -> str:
    return str(PurePosixPath(os.path.normpath(str(p))))


class MemFilestore(VirtualFilestore):
    is_mem = True

    def __init__(self):
        self.files = {}  # path -> bytearray
        self.dirs = {MEM_ROOT, "/"}
        self.calls = []

    def __len__(self):
        # container-like: an empty store is falsy (a legal property of a user-supplied filestore object; code that
        # tests the object's truth value instead of `is None` would silently fall back to the native filestore)
        return len(self.files)

    # -- helpers for the harness
    def mkdirs(self, p):
        p = PurePosixPath(_k(p))
        for q in list(reversed(p.parents)) + [p]:
            self.dirs.add(str(q))

    def put(self, p, data: bytes):
        self.mkdirs(PurePosixPath(_k(p)).parent)
        self.files[_k(p)] = bytearray(data)

    def get(self, p):
        f = self.files.get(_k(p))
        return None if f is None else bytes(f)

    def _parent_ok(self, k):
        return str(PurePosixPath(k).parent) in self.dirs

    def _note(self, name, *a):
        self.calls.append((name,) + tuple(str(x) if isinstance(x, (Path, PurePosixPath)) else x for x in a))

    # -- VirtualFilestore
    def read_data(self, file, offset, read_len=None):
        self._note("read_data", file, offset, read_len)
        k = _k(file)
        if k not in self.files:
            raise FileNotFoundError(file)
        data = self.files[k]
        if offset is None:
            offset = 0
        if read_len is None:
            read_len = len(data)
        return bytes(data[offset : offset + read_len])

    def read_from_opened_file(self, bytes_io, offset, read_len):
        self._note("read_from_opened_file", offset, read_len)
        bytes_io.seek(offset)
        return bytes_io.read(read_len)

    def is_directory(self, path):
        self._note("is_directory", path)
        return _k(path) in self.dirs

    def filename_from_full_path(self, path):
        return PurePosixPath(_k(path)).name

    def file_exists(self, path):
        self._note("file_exists", path)
        k = _k(path)
        return k in self.files or k in self.dirs

    def truncate_file(self, file):
        self._note("truncate_file", file)
        k = _k(file)
        if k in self.dirs:
            raise IsADirectoryError(file)
        if k not in self.files:
            raise FileNotFoundError(file)
        self.files[k] = bytearray()

    def file_size(self, file):
        self._note("file_size", file)
        k = _k(file)
        if k not in self.files:
            raise FileNotFoundError(file)
        return len(self.files[k])

    def write_data(self, file, data, offset):
        self._note("write_data", file, len(data), offset)
        k = _k(file)
        if k in self.dirs:
            raise IsADirectoryError(file)
        if k not in self.files:
            raise FileNotFoundError(file)
        if not data:
            return
        buf = self.files[k]
        off = 0 if offset is None else offset
        if off > len(buf):
            buf.extend(b"\x00" * (off - len(buf)))
        buf[off : off + len(data)] = data

    def create_file(self, file):
        self._note("create_file", file)
        k = _k(file)
        if k in self.files or k in self.dirs:
            return RC.CREATE_NOT_ALLOWED
        if not self._parent_ok(k):
            return RC.CREATE_NOT_ALLOWED
        self.files[k] = bytearray()
        return RC.CREATE_SUCCESS

    def delete_file(self, file):
        self._note("delete_file", file)
        k = _k(file)
        if k in self.dirs:
            return RC.DELETE_NOT_ALLOWED
        if k not in self.files:
            return RC.DELETE_FILE_DOES_NOT_EXIST
        del self.files[k]
        return RC.DELETE_SUCCESS

    def rename_file(self, old_file, new_file):
        a, b = _k(old_file), _k(new_file)
        if a in self.dirs or b in self.dirs:
            return RC.RENAME_NOT_PERFORMED
        if a not in self.files:
            return RC.RENAME_OLD_FILE_DOES_NOT_EXIST
        if b in self.files:
            return RC.RENAME_NEW_FILE_DOES_EXIST
        self.files[b] = self.files.pop(a)
        return RC.RENAME_SUCCESS

    def replace_file(self, replaced_file, source_file):
        a, b = _k(replaced_file), _k(source_file)
        if a in self.dirs or b in self.dirs:
            return RC.REPLACE_NOT_ALLOWED
        if a not in self.files:
            return RC.REPLACE_FILE_NAME_ONE_TO_BE_REPLACED_DOES_NOT_EXIST
        if b not in self.files:
            return RC.REPLACE_FILE_NAME_TWO_REPLACE_SOURCE_NOT_EXIST
        self.files[a] = self.files.pop(b)
        return RC.REPLACE_SUCCESS

    def create_directory(self, dir_name):
        k = _k(dir_name)
        if k in self.dirs or k in self.files:
            return RC.CREATE_DIR_CAN_NOT_BE_CREATED
        self.dirs.add(k)
        return RC.CREATE_DIR_SUCCESS

    def remove_directory(self, dir_name, recursive=False):
        k = _k(dir_name)
        if k not in self.dirs:
            return RC.REMOVE_DIR_NOT_ALLOWED if k in self.files else RC.REMOVE_DIR_DOES_NOT_EXIST
        inside = [p for p in list(self.files) + list(self.dirs) if p.startswith(k + "/")]
        if inside and not recursive:
            return RC.REMOVE_DIR_NOT_PERFORMED
        for p in inside:
            self.files.pop(p, None)
            self.dirs.discard(p)
        self.dirs.discard(k)
        return RC.REMOVE_DIR_SUCCESS

    def list_directory(self, dir_name, target_file, recursive=False):
        return RC.NOT_PERFORMED

    def calculate_checksum(self, checksum_type, file_path, size_to_verify, segment_len=4096):
        self._note("calculate_checksum", file_path, size_to_verify)
        if checksum_type == ChecksumType.NULL_CHECKSUM:
            return b"\x00\x00\x00\x00"
        k = _k(file_path)
        if k not in self.files:
            raise FileNotFoundError(file_path)
        if segment_len == 0:
            raise ValueError("segment length can not be 0")
        return models.ref_checksum(_CS[checksum_type], bytes(self.files[k][:size_to_verify]))


# ------------------------------------------------------------------ host file-system audit
class HostAudit:
    """While active, every call of open / os.stat / os.lstat / os.remove / os.unlink / os.mkdir / os.rmdir / os.rename /
    os.replace / os.truncate / os.listdir / os.scandir is attributed to the innermost frame that belongs to cfdppy
    or to the harness; calls whose innermost such frame is in cfdppy/handler are recorded (the handlers must go
    through the filestore object)."""

    NAMES_OS = ["open", "stat", "lstat", "remove", "unlink", "mkdir", "rmdir", "rename", "replace", "truncate", "listdir", "scandir", "access", "chmod", "utime", "makedirs"]

    def __init__(self):
        self.records = []
        self._saved = []
        self.active = False

    def _attribute(self, what, args):
        f = sys._getframe(2)
        while f is not None:
            fn = f.f_code.co_filename
            if "/cfdppy/" in fn:
                if "/cfdppy/handler/" in fn:
                    tgt = args[0] if args else None
                    self.records.append((what, os.path.basename(fn), f.f_code.co_name, str(tgt)[:120]))
                return
            if "/verif/lib/" in fn or "/lib/props/" in fn or "/lib/sim.py" in fn or "/lib/memfs.py" in fn:
                return
            f = f.f_back

    def __enter__(self):
        self.active = True
        audit = self

        def wrap(orig, what):
            def w(*a, **kw):
                if audit.active:
                    audit._attribute(what, a)
                return orig(*a, **kw)

            return w

        self._saved.append((builtins, "open", builtins.open))
        builtins.open = wrap(builtins.open, "open")
        self._saved.append((io, "open", io.open))
        io.open = wrap(io.open, "open")
        for n in self.NAMES_OS:
            if hasattr(os, n):
                self._saved.append((os, n, getattr(os, n)))
                setattr(os, n, wrap(getattr(os, n), "os." + n))
        return self

    def __exit__(self, *exc):
        self.active = False
        for mod, name, orig in reversed(self._saved):
            setattr(mod, name, orig)
        self._saved = []
        return False
