"""Deterministic two-entity simulator: virtual clock, recording users and fault handlers,
entities (the documented user duties), link with fault schedule, transports, pacing.
See DESIGN.md 3.2 - 3.7. Nothing in /repo is modified; everything is observed from outside.
"""
from __future__ import annotations

import copy
import os
import shutil
import weakref
from pathlib import Path

import spacepackets.countdown as _cd
from spacepackets.cfdp import (
    ChecksumType,
    ConditionCode,
    CrcFlag,
    Direction,
    FaultHandlerCode,
    PduConfig,
    PduType,
    TransactionId,
    TransmissionMode,
)
from spacepackets.cfdp.pdu import (
    AckPdu,
    DirectiveType,
    EofPdu,
    FileDataPdu,
    FinishedPdu,
    MetadataPdu,
    NakPdu,
    TransactionStatus,
)
from spacepackets.cfdp.pdu.file_data import FileDataParams
from spacepackets.cfdp.pdu.helper import PduFactory
from spacepackets.countdown import Countdown
from spacepackets.seqcount import SeqCountProvider
from spacepackets.util import UnsignedByteField

import cfdppy.exceptions as _cexc
from cfdppy.defs import CfdpState
from cfdppy.filestore import NativeFilestore
from cfdppy.handler.dest import DestHandler, acknowledge_inactive_eof_pdu
from cfdppy.handler.source import SourceHandler
from cfdppy.mib import (
    CheckTimerProvider,
    DefaultFaultHandlerBase,
    EntityType,
    IndicationCfg,
    LocalEntityCfg,
    RemoteEntityCfg,
    RemoteEntityCfgTable,
)
from cfdppy.request import PutRequest
from cfdppy.user import CfdpUserBase

LIB_EXC = tuple(
    v for v in vars(_cexc).values() if isinstance(v, type) and issubclass(v, Exception) and v.__module__ == _cexc.__name__
)

MODES = {"ACK": TransmissionMode.ACKNOWLEDGED, "NAK": TransmissionMode.UNACKNOWLEDGED}
CSUMS = {
    "CRC_32": ChecksumType.CRC_32,
    "CRC_32C": ChecksumType.CRC_32C,
    "MODULAR": ChecksumType.MODULAR,
    "NULL_CHECKSUM": ChecksumType.NULL_CHECKSUM,
}
CSUM_NAMES = {v: k for k, v in CSUMS.items()}
FH_CODES = {
    "IGNORE": FaultHandlerCode.IGNORE_ERROR,
    "CANCEL": FaultHandlerCode.NOTICE_OF_CANCELLATION,
    "ABANDON": FaultHandlerCode.ABANDON_TRANSACTION,
    "SUSPEND": FaultHandlerCode.NOTICE_OF_SUSPENSION,
}


# ------------------------------------------------------------------ virtual clock
class VClock:
    def __init__(self):
        self.now = 1_000_000
        self.timers = []  # (weakref, owner)
        self.owner = None  # whoever is running handler code right now (timers are attributed to it)

    def reset(self):
        self.now = 1_000_000
        self.timers = []
        self.owner = None

    def next_deadline(self, owner=None):
        """Earliest pending expiry (of timers created while `owner` was active, if given)."""
        best = None
        alive = []
        for r, o in self.timers:
            t = r()
            if t is None:
                continue
            alive.append((r, o))
            if owner is not None and o is not owner:
                continue
            d = t._start_time_ms + t._timeout_ms
            if d > self.now and (best is None or d < best):
                best = d
        self.timers = alive
        return best


CLOCK = VClock()
_installed = False


def install_clock():
    """Replace the time source of spacepackets.countdown (module-level function looked up at call
    time by Countdown) and register every Countdown created, so that the harness knows the pending
    deadlines."""
    global _installed
    if _installed:
        return
    _installed = True
    _cd.time_ms = lambda: CLOCK.now
    orig_init = Countdown.__init__

    def init(self, init_timeout):
        orig_init(self, init_timeout)
        CLOCK.timers.append((weakref.ref(self), CLOCK.owner))

    Countdown.__init__ = init


# ------------------------------------------------------------------ sandbox
_BASE = None


def sandbox_base() -> Path:
    global _BASE
    if _BASE is None or _BASE[0] != os.getpid():
        root = "/dev/shm" if os.path.isdir("/dev/shm") and os.access("/dev/shm", os.W_OK) else "/tmp"
        p = Path(root) / f"cv{os.getpid():07d}"
        if p.exists():
            shutil.rmtree(p)
        p.mkdir()
        _BASE = (os.getpid(), p)
        import atexit

        atexit.register(lambda p=p, pid=os.getpid(): os.getpid() == pid and shutil.rmtree(p, ignore_errors=True))
    return _BASE[1]


def fresh_dir(name: str) -> Path:
    p = sandbox_base() / name
    if p.exists():
        shutil.rmtree(p)
    p.mkdir()
    return p


_PROC_DIRS = {}


def proc_dir(name: str) -> Path:
    """Per-process scratch directory, created once per process (safe across fork)."""
    key = (os.getpid(), name)
    if key not in _PROC_DIRS:
        _PROC_DIRS[key] = fresh_dir(name)
    p = _PROC_DIRS[key]
    if not p.exists():
        p.mkdir(parents=True)
    return p


def cleanup_sandbox():
    global _BASE
    if _BASE is not None and _BASE[0] == os.getpid():
        shutil.rmtree(_BASE[1], ignore_errors=True)
        _BASE = None


def tree_snapshot(root: Path) -> dict:
    out = {}
    for dirpath, dirnames, filenames in os.walk(root):
        rel = os.path.relpath(dirpath, root)
        if rel != ".":
            out[rel] = None
        for f in filenames:
            fp = os.path.join(dirpath, f)
            with open(fp, "rb") as fh:
                out[os.path.normpath(os.path.join(rel, f))] = fh.read()
    return out


class RejectingFilestore(NativeFilestore):
    """Native filestore whose write_data / create_file / truncate_file raise PermissionError at the
    given call indices (the documented failure mode of those methods)."""

    def __init__(self, reject_writes=(), reject_create=False, reject_truncate=False):
        super().__init__()
        self.reject_writes = set(reject_writes)
        self.reject_create = reject_create
        self.reject_truncate = reject_truncate
        self.nwrites = 0
        self.rejected = 0

    def write_data(self, file, data, offset):
        i = self.nwrites
        self.nwrites += 1
        if i in self.reject_writes:
            self.rejected += 1
            raise PermissionError(str(file))
        return super().write_data(file, data, offset)

    def create_file(self, file):
        if self.reject_create:
            self.rejected += 1
            raise PermissionError(str(file))
        return super().create_file(file)

    def truncate_file(self, file):
        if self.reject_truncate:
            self.rejected += 1
            raise PermissionError(str(file))
        return super().truncate_file(file)


# ------------------------------------------------------------------ PDU helpers
def pdu_kind(pdu) -> str:
    if pdu.pdu_type == PduType.FILE_DATA:
        return "FD"
    d = pdu.directive_type
    if d == DirectiveType.METADATA_PDU:
        return "MD"
    if d == DirectiveType.EOF_PDU:
        return "EOF"
    if d == DirectiveType.FINISHED_PDU:
        return "FIN"
    if d == DirectiveType.NAK_PDU:
        return "NAK"
    if d == DirectiveType.ACK_PDU:
        return "ACK_EOF" if pdu.directive_code_of_acked_pdu == DirectiveType.EOF_PDU else "ACK_FIN"
    if d == DirectiveType.KEEP_ALIVE_PDU:
        return "KA"
    if d == DirectiveType.PROMPT_PDU:
        return "PROMPT"
    return "?"


TO_DST = ("MD", "FD", "EOF", "ACK_FIN", "PROMPT")
TO_SRC = ("ACK_EOF", "NAK", "FIN", "KA")


def tid_of(pdu):
    return (pdu.source_entity_id.value, pdu.transaction_seq_num.value)


def tid_plain(tid: TransactionId | None):
    if tid is None:
        return None
    return (tid.source_id.value, tid.seq_num.value)


def fin_plain(fp):
    fl = fp.fault_location
    return {
        "cond": int(fp.condition_code),
        "delivery": int(fp.delivery_code),
        "status": int(fp.file_status),
        "fault_loc": None if fl is None else bytes(fl.value).hex(),
    }


def pdu_desc(pdu) -> dict:
    k = pdu_kind(pdu)
    d = {"k": k}
    if k == "FD":
        d["off"] = pdu.offset
        d["len"] = len(pdu.file_data)
    elif k == "MD":
        d["size"] = pdu.file_size
        d["src"] = pdu.source_file_name
        d["dst"] = pdu.dest_file_name
        d["closure"] = bool(pdu.closure_requested)
        d["csum"] = CSUM_NAMES.get(pdu.checksum_type, str(pdu.checksum_type))
    elif k == "EOF":
        d["cond"] = int(pdu.condition_code)
        d["size"] = pdu.file_size
        d["csum"] = bytes(pdu.file_checksum).hex()
        fl = pdu.fault_location
        d["fault_loc"] = None if fl is None else bytes(fl.value).hex()
    elif k in ("ACK_EOF", "ACK_FIN"):
        d["cond"] = int(pdu.condition_code_of_acked_pdu)
        d["status"] = int(pdu.transaction_status)
    elif k == "NAK":
        d["scope"] = (pdu.start_of_scope, pdu.end_of_scope)
        d["reqs"] = [tuple(r) for r in pdu.segment_requests]
    elif k == "FIN":
        d.update(fin_plain(pdu.finished_params))
    return d


def transport(pdu, mode: str):
    """wire: serialise and parse again (what a real link does); obj: deep copy (what the repository
    example does through its pickling queue). PDUs are never shared by reference."""
    if mode == "wire":
        raw = bytes(pdu.pack())
        q = PduFactory.from_raw(raw)
        if isinstance(q, EofPdu) and int(q.condition_code) > 15:
            # spacepackets 0.26.1 EofPdu.unpack keeps `byte & 0xF0` unshifted (dependency quirk)
            q.condition_code = ConditionCode(int(q.condition_code) >> 4)
        return q
    return copy.deepcopy(pdu)


# ------------------------------------------------------------------ recording user / fault handler
class RecUser(CfdpUserBase):
    def __init__(self, vfs, log, side, hook=None):
        super().__init__(vfs=vfs)
        self.log = log
        self.side = side
        self.hook = hook  # hook(side, name, data, raw_params)

    def _rec(self, name, data, raw=None):
        self.log.append(("ind", self.side, name, data))
        if self.hook is not None:
            self.hook(self.side, name, data, raw)

    def transaction_indication(self, p):
        self._rec("transaction", {"tid": tid_plain(p.transaction_id), "orig": tid_plain(p.originating_transaction_id)}, p)

    def eof_sent_indication(self, transaction_id):
        self._rec("eof_sent", {"tid": tid_plain(transaction_id)})

    def transaction_finished_indication(self, params):
        d = {"tid": tid_plain(params.transaction_id)}
        d.update(fin_plain(params.finished_params))
        self._rec("finished", d, params)

    def metadata_recv_indication(self, params):
        msgs = None
        if params.msgs_to_user is not None:
            msgs = [bytes(m.value).hex() for m in params.msgs_to_user]
        self._rec(
            "metadata_recv",
            {
                "tid": tid_plain(params.transaction_id),
                "source_id": params.source_id.value,
                "size": params.file_size,
                "src": params.source_file_name,
                "dst": params.dest_file_name,
                "msgs": msgs,
            },
            params,
        )

    def file_segment_recv_indication(self, params):
        self._rec(
            "segment_recv",
            {"tid": tid_plain(params.transaction_id), "off": params.offset, "len": params.length},
            params,
        )

    def report_indication(self, transaction_id, status_report):
        self._rec("report", {"tid": tid_plain(transaction_id)})

    def suspended_indication(self, transaction_id, cond_code):
        self._rec("suspended", {"tid": tid_plain(transaction_id)})

    def resumed_indication(self, transaction_id, progress):
        self._rec("resumed", {"tid": tid_plain(transaction_id)})

    def fault_indication(self, transaction_id, cond_code, progress):
        self._rec("fault_ind", {"tid": tid_plain(transaction_id), "cond": int(cond_code)})

    def abandoned_indication(self, transaction_id, cond_code, progress):
        self._rec("abandoned_ind", {"tid": tid_plain(transaction_id), "cond": int(cond_code)})

    def eof_recv_indication(self, transaction_id):
        self._rec("eof_recv", {"tid": tid_plain(transaction_id)})


class RecFaults(DefaultFaultHandlerBase):
    def __init__(self, log, side, table=None):
        super().__init__()
        self.log = log
        self.side = side
        for cond, code in (table or {}).items():
            self.set_handler(ConditionCode[cond], FH_CODES[code])

    def _rec(self, kind, tid, cond, progress):
        self.log.append(("fault", self.side, kind, tid_plain(tid), int(cond), progress))

    def notice_of_suspension_cb(self, transaction_id, cond, progress):
        self._rec("SUSPEND", transaction_id, cond, progress)

    def notice_of_cancellation_cb(self, transaction_id, cond, progress):
        self._rec("CANCEL", transaction_id, cond, progress)

    def abandoned_cb(self, transaction_id, cond, progress):
        self._rec("ABANDON", transaction_id, cond, progress)

    def ignore_cb(self, transaction_id, cond, progress):
        self._rec("IGNORE", transaction_id, cond, progress)


DOCUMENTED_DEFAULT_TABLE = {
    # DefaultFaultHandlerBase: "The initial default handle will be to cancel the transaction", except that checksum
    # failures and unsupported checksum types "will be ignored by default"
    "CANCEL_REQUEST_RECEIVED": "CANCEL", "POSITIVE_ACK_LIMIT_REACHED": "CANCEL", "KEEP_ALIVE_LIMIT_REACHED": "CANCEL",
    "INVALID_TRANSMISSION_MODE": "CANCEL", "FILE_CHECKSUM_FAILURE": "IGNORE", "FILE_SIZE_ERROR": "CANCEL", "FILESTORE_REJECTION": "CANCEL",
    "NAK_LIMIT_REACHED": "CANCEL", "INACTIVITY_DETECTED": "CANCEL", "CHECK_LIMIT_REACHED": "CANCEL", "UNSUPPORTED_CHECKSUM_TYPE": "IGNORE",
}


def fault_table_isolation_probe():
    """Self-contained and self-cleaning: configure every condition of one fault handler object to a non-default code,
    check that a second, newly constructed object still has the documented defaults, then restore the defaults on the
    first (which also undoes process-wide state on a tree where the table is shared). Returns None or a description."""
    a = RecFaults([], "probe1")
    bad = None
    try:
        for name, code in DOCUMENTED_DEFAULT_TABLE.items():
            a.set_handler(ConditionCode[name], FH_CODES["ABANDON" if code != "ABANDON" else "IGNORE"])
        b = RecFaults([], "probe2")
        for name, code in DOCUMENTED_DEFAULT_TABLE.items():
            got = b.get_fault_handler(ConditionCode[name])
            if got != FH_CODES[code]:
                bad = f"after set_handler({name}, ...) on one fault handler object a newly constructed one has {name} -> {getattr(got, 'name', got)} instead of the default {code}"
                break
    finally:
        for name, code in DOCUMENTED_DEFAULT_TABLE.items():
            a.set_handler(ConditionCode[name], FH_CODES[code])
    return bad


def fault_table_pollution():
    """A freshly constructed fault handler object must carry the documented default table whatever other
    instances in the process were configured to. Returns None or a description of the difference."""
    fresh = RecFaults([], "probe")
    for name, code in DOCUMENTED_DEFAULT_TABLE.items():
        got = fresh.get_fault_handler(ConditionCode[name])
        if got != FH_CODES[code]:
            return f"new fault handler object has {name} -> {getattr(got, 'name', got)} instead of the default {code}"
    return None


class TimerProvider(CheckTimerProvider):
    def __init__(self, src_ms, dst_ms):
        self.src_ms = src_ms
        self.dst_ms = dst_ms

    def provide_check_timer(self, local_entity_id, remote_entity_id, entity_type):
        if entity_type == EntityType.RECEIVING:
            return Countdown.from_millis(self.dst_ms)
        return Countdown.from_millis(self.src_ms)


# ------------------------------------------------------------------ configuration
DEFAULT_CFG = {
    "mode": "ACK",
    "req_mode": None,
    "closure": False,
    "req_closure": None,
    "crc_type": "CRC_32",
    "pdu_crc": False,
    "src_id": [2, 1],  # [width, value]
    "dst_id": [2, 2],
    "seq_width": 16,
    "seq_start": 0,
    "max_seg": None,
    "max_pkt": 64,
    "immediate_nak": True,
    "ack_limit": 2,
    "nak_limit": 2,
    "check_limit": 2,
    "ack_ms": 1000,
    "nak_ms": 1000,
    "chk_ms_src": 1000,
    "chk_ms_dst": 1000,
    "disposition": False,
    "ind_src": [True, True, True, True],  # eof_sent, eof_recv, segment_recv, finished
    "ind_dst": [True, True, True, True],
    "fh_src": {},
    "fh_dst": {},
    "transport": "obj",
}


def norm_cfg(cfg: dict) -> dict:
    out = dict(DEFAULT_CFG)
    out.update(cfg or {})
    return out


def eff_mode(cfg) -> str:
    return cfg["req_mode"] or cfg["mode"]


def eff_closure(cfg) -> bool:
    return cfg["closure"] if cfg["req_closure"] is None else cfg["req_closure"]


def id_width(cfg) -> int:
    return max(cfg["src_id"][0], cfg["dst_id"][0])


def min_packet_len(cfg) -> int:
    """Smallest max_packet_len that can hold the fixed-size PDUs the handlers must emit (DESIGN 3.6)."""
    from .models import eof_len, nak_len

    w, s, crc = id_width(cfg), cfg["seq_width"] // 8, cfg["pdu_crc"]
    need = eof_len(w, s, crc)
    if eff_mode(cfg) == "ACK":
        need = max(need, nak_len(w, s, crc, 1))
    from .models import fd_overhead

    need = max(need, fd_overhead(w, s, crc) + 1)
    return need


def _indication_cfg(flags) -> IndicationCfg:
    return IndicationCfg(
        eof_sent_indication_required=flags[0],
        eof_recv_indication_required=flags[1],
        file_segment_recvd_indication_required=flags[2],
        transaction_finished_indication_required=flags[3],
    )


def remote_cfg_for(cfg, entity_id: UnsignedByteField) -> RemoteEntityCfg:
    return RemoteEntityCfg(
        entity_id=entity_id,
        max_file_segment_len=cfg["max_seg"],
        max_packet_len=cfg["max_pkt"],
        closure_requested=cfg["closure"],
        crc_on_transmission=cfg["pdu_crc"],
        default_transmission_mode=MODES[cfg["mode"]],
        crc_type=CSUMS[cfg["crc_type"]],
        positive_ack_timer_interval_seconds=cfg["ack_ms"] / 1000.0,
        positive_ack_timer_expiration_limit=cfg["ack_limit"],
        check_limit=cfg["check_limit"],
        disposition_on_cancellation=cfg["disposition"],
        immediate_nak_mode=cfg["immediate_nak"],
        nak_timer_interval_seconds=cfg["nak_ms"] / 1000.0,
        nak_timer_expiration_limit=cfg["nak_limit"],
    )


class SeqProvider(SeqCountProvider):
    """Sequence-number provider of the given width that wraps (spacepackets' in-memory provider
    counts without bound)."""

    def __init__(self, bits, start):
        super().__init__(bits)
        self.count = start % (1 << bits)
        self.handed_out = []

    def get_and_increment(self):
        v = self.count
        self.count = (self.count + 1) % (1 << self.max_bit_width)
        self.handed_out.append(v)
        return v


def _seq_provider(bits, start):
    p = SeqProvider(bits, start)
    # SeqCountProvider keeps its counter in `count`; make sure the start value took effect
    return p


def make_source(cfg, log, vfs=None, hook=None, extra_remote=()):
    cfg = norm_cfg(cfg)
    src_id = UnsignedByteField(cfg["src_id"][1], cfg["src_id"][0])
    dst_id = UnsignedByteField(cfg["dst_id"][1], cfg["dst_id"][0])
    user = RecUser(vfs if vfs is not None else NativeFilestore(), log, "src", hook)
    fh = RecFaults(log, "src", cfg["fh_src"])
    table = RemoteEntityCfgTable([remote_cfg_for(cfg, dst_id), *extra_remote])
    seqp = _seq_provider(cfg["seq_width"], cfg["seq_start"])
    h = SourceHandler(
        cfg=LocalEntityCfg(src_id, _indication_cfg(cfg["ind_src"]), fh),
        user=user,
        remote_cfg_table=table,
        check_timer_provider=TimerProvider(cfg["chk_ms_src"], cfg["chk_ms_dst"]),
        seq_num_provider=seqp,
    )
    return h, user, fh, seqp


def make_dest(cfg, log, vfs=None, hook=None, extra_remote=()):
    cfg = norm_cfg(cfg)
    src_id = UnsignedByteField(cfg["src_id"][1], cfg["src_id"][0])
    dst_id = UnsignedByteField(cfg["dst_id"][1], cfg["dst_id"][0])
    user = RecUser(vfs if vfs is not None else NativeFilestore(), log, "dst", hook)
    fh = RecFaults(log, "dst", cfg["fh_dst"])
    table = RemoteEntityCfgTable([remote_cfg_for(cfg, src_id), *extra_remote])
    h = DestHandler(
        cfg=LocalEntityCfg(dst_id, _indication_cfg(cfg["ind_dst"]), fh),
        user=user,
        remote_cfg_table=table,
        check_timer_provider=TimerProvider(cfg["chk_ms_src"], cfg["chk_ms_dst"]),
    )
    return h, user, fh


def workaround_shared_tracker():
    """Finding F01: on trees where the lost-segment tracker is a shared dataclass default every
    receiver in the process shares one tracker. Checks other than C11 clear it between runs so that
    one root cause does not ring every alarm (R1). Returns True if the workaround was needed."""
    from cfdppy.handler import dest as _d

    a, b = _d._AckedModeParams(), _d._AckedModeParams()
    if a.lost_seg_tracker is b.lost_seg_tracker:
        a.lost_seg_tracker.reset()
        return True
    return False


# ------------------------------------------------------------------ entities
class Entity:
    """One handler plus what the documentation leaves to the surrounding entity: the call
    discipline (drain after every call), tolerance of library exceptions, a history of closed
    transactions and the answers owed to PDUs of closed transactions (DESIGN 3.3)."""

    def __init__(self, side, handler, log, transport_mode):
        self.side = side
        self.h = handler
        self.log = log
        self.tmode = transport_mode
        self.ncalls = 0
        self.closed = set()
        self.seen_tid = None
        self.internal_error = None
        self.refused = 0
        self.lib_exc = 0

    # -- observation helpers
    def idle(self):
        return self.h.states.state == CfdpState.IDLE

    def _note_tid(self):
        t = self.h.transaction_id
        if t is not None:
            self.seen_tid = tid_plain(t)

    def _after_call(self, was_busy):
        self._note_tid()
        if was_busy and self.idle() and self.seen_tid is not None:
            self.closed.add(self.seen_tid)

    def drain(self):
        out = []
        while True:
            try:
                holder = self.h.get_next_packet()
            except Exception as e:  # noqa: BLE001
                self.internal_error = e
                self.log.append(("exc", self.side, self.ncalls, type(e).__name__, False, "get_next_packet: " + str(e)[:200]))
                break
            if holder is None:
                break
            pdu = holder.pdu
            try:
                raw = bytes(pdu.pack())
            except Exception as e:  # noqa: BLE001
                self.log.append(("emit_error", self.side, self.ncalls, type(e).__name__, str(e)[:200]))
                continue
            try:
                cp = transport(pdu, self.tmode)
            except Exception as e:  # noqa: BLE001
                self.log.append(("emit_error", self.side, self.ncalls, type(e).__name__, "unparsable: " + str(e)[:200]))
                continue
            self.log.append(("emit", self.side, self.ncalls, cp, raw))
            out.append(cp)
        return out

    def call(self, pdu=None):
        """One state_machine call followed by a full drain. Returns the list of emitted PDUs."""
        if self.internal_error is not None:
            return []
        self.ncalls += 1
        was_busy = not self.idle()
        kind = None if pdu is None else pdu_kind(pdu)
        self.log.append(("call", self.side, self.ncalls, kind, self.h.step.name, pdu))
        try:
            self.h.state_machine(pdu)
        except LIB_EXC as e:
            self.lib_exc += 1
            self.log.append(("exc", self.side, self.ncalls, type(e).__name__, True, str(e)[:200]))
            if pdu is not None:
                # PDU refused: keep serving timers (documented user loop calls the FSM regularly)
                out = self.drain()
                self._after_call(was_busy)
                try:
                    self.h.state_machine(None)
                except LIB_EXC as e2:
                    self.log.append(("exc", self.side, self.ncalls, type(e2).__name__, True, str(e2)[:200]))
                except Exception as e2:  # noqa: BLE001
                    self.internal_error = e2
                    self.log.append(("exc", self.side, self.ncalls, type(e2).__name__, False, str(e2)[:200]))
                out += self.drain()
                self._after_call(was_busy)
                return out
        except Exception as e:  # noqa: BLE001
            self.internal_error = e
            self.log.append(("exc", self.side, self.ncalls, type(e).__name__, False, _where(e)))
        out = self.drain()
        self._after_call(was_busy)
        if pdu is not None and not was_busy and self.idle() and self.internal_error is None and not any(
            e[0] == "exc" and e[1] == self.side and e[2] == self.ncalls for e in self.log[-6:]
        ):
            # a transaction that was opened and closed by this single call (e.g. a metadata-only transfer in
            # unacknowledged mode) belongs to the history as well
            self.closed.add(tid_of(pdu))
        return out


def _where(e: BaseException) -> str:
    import traceback

    tb = traceback.extract_tb(e.__traceback__)
    frames = [f for f in tb if "/cfdppy/" in f.filename]
    f = frames[-1] if frames else (tb[-1] if tb else None)
    loc = f"{os.path.basename(f.filename)}:{f.name}" if f else "?"
    return f"{loc}: {str(e)[:160]}"


class SrcEntity(Entity):
    def __init__(self, handler, log, transport_mode):
        super().__init__("src", handler, log, transport_mode)

    def deliver(self, pdu):
        """Entity-level handling of an inbound PDU. Returns emitted PDUs."""
        t = tid_of(pdu)
        if self.idle() and t in self.closed:
            if pdu_kind(pdu) == "FIN" and pdu.transmission_mode == TransmissionMode.ACKNOWLEDGED:
                conf = copy.copy(pdu.pdu_header.pdu_conf)
                ack = AckPdu(conf, DirectiveType.FINISHED_PDU, pdu.condition_code, TransactionStatus.TERMINATED)
                raw = bytes(ack.pack())
                cp = transport(ack, self.tmode)
                self.log.append(("entity_emit", self.side, self.ncalls, cp, raw))
                return [cp]
            self.log.append(("entity_drop", self.side, pdu_kind(pdu)))
            return []
        return self.call(pdu)


class DstEntity(Entity):
    def __init__(self, handler, log, transport_mode):
        super().__init__("dst", handler, log, transport_mode)

    def deliver(self, pdu):
        t = tid_of(pdu)
        if t in self.closed and (self.idle() or tid_plain(self.h.transaction_id) != t):
            if pdu_kind(pdu) == "EOF" and pdu.transmission_mode == TransmissionMode.ACKNOWLEDGED:
                try:
                    ack = acknowledge_inactive_eof_pdu(copy.deepcopy(pdu), TransactionStatus.TERMINATED)
                except Exception as e:  # noqa: BLE001
                    # the documented helper refused a status it documents: recorded like any exception of a library call
                    self.internal_error = e
                    self.log.append(("exc", self.side, self.ncalls, type(e).__name__, False, "acknowledge_inactive_eof_pdu: " + str(e)[:160]))
                    return []
                raw = bytes(ack.pack())
                cp = transport(ack, self.tmode)
                self.log.append(("entity_emit", self.side, self.ncalls, cp, raw))
                return [cp]
            self.log.append(("entity_drop", self.side, pdu_kind(pdu)))
            return []
        return self.call(pdu)


# ------------------------------------------------------------------ link
class Link:
    """Two directed queues with a fault schedule keyed by (pdu kind, occurrence)."""

    def __init__(self, faults, log):
        self.faults = {}
        self.silence = {}  # kind -> first occurrence from which every PDU of that kind is dropped
        self.cut = {}  # direction -> number of PDUs after which the direction is silent
        self.dir_count = {"dst": 0, "src": 0}
        for f in faults or []:
            kind, occ, action = f[0], f[1], f[2]
            arg = f[3] if len(f) > 3 else 0
            if action == "dropall":
                self.silence[kind] = min(occ, self.silence.get(kind, occ))
                continue
            if action == "cut":
                # kind is "TO_DST" / "TO_SRC": that direction goes silent after `occ` PDUs
                d = "dst" if kind == "TO_DST" else "src"
                self.cut[d] = min(occ, self.cut.get(d, occ))
                continue
            self.faults.setdefault((kind, occ), []).append((action, arg))
        self.log = log
        self.count = {}
        self.q = {"dst": [], "src": []}  # items: [pdu, hold_ticks]
        self.delayed = {"dst": [], "src": []}  # items: [remaining, pdu]
        self.applied = []

    def send(self, pdu):
        kind = pdu_kind(pdu)
        to = "dst" if kind in TO_DST else "src"
        occ = self.count.get(kind, 0)
        self.count[kind] = occ + 1
        # every PDU sent lets the delayed ones of that direction move one position
        still = []
        release = []
        for item in self.delayed[to]:
            item[0] -= 1
            (release if item[0] <= 0 else still).append(item)
        self.delayed[to] = still
        acts = list(self.faults.get((kind, occ), []))
        if kind in self.silence and occ >= self.silence[kind]:
            acts.append(("drop", 0))
        nth = self.dir_count[to]
        self.dir_count[to] = nth + 1
        if to in self.cut and nth >= self.cut[to]:
            acts.append(("drop", 0))
        copies = [[pdu, 0]]
        dropped = False
        delay = 0
        for action, arg in acts:
            self.applied.append((kind, occ, action))
            self.log.append(("link", action, kind, occ))
            if action == "drop":
                dropped = True
            elif action == "dup":
                copies.append([copy.deepcopy(pdu), 0])
            elif action == "delay":
                delay = max(1, int(arg))
            elif action == "hold":
                for c in copies:
                    c[1] = max(1, int(arg))
            elif action == "flip" and kind == "FD" and len(pdu.file_data) > 0:
                data = bytearray(pdu.file_data)
                bit = int(arg) % (len(data) * 8)
                data[bit // 8] ^= 1 << (bit % 8)
                pdu.file_data = bytes(data)
        if not dropped:
            if delay:
                for c in copies[:1]:
                    self.delayed[to].append([delay, c[0]])
                for c in copies[1:]:
                    self.q[to].append(c)
            else:
                self.q[to].extend(copies)
        for item in release:
            self.q[to].append([item[1], 0])

    def pop(self, to):
        for i, (pdu, hold) in enumerate(self.q[to]):
            if hold <= 0:
                del self.q[to][i]
                return pdu
        return None

    def deliverable(self, to):
        return any(h <= 0 for _, h in self.q[to])

    def flush_delayed(self):
        moved = False
        for to in ("dst", "src"):
            for item in self.delayed[to]:
                self.q[to].append([item[1], 0])
                moved = True
            self.delayed[to] = []
        return moved

    def tick(self):
        for to in ("dst", "src"):
            for item in self.q[to]:
                if item[1] > 0:
                    item[1] -= 1

    def empty(self):
        return not (self.q["dst"] or self.q["src"] or self.delayed["dst"] or self.delayed["src"])

    def only_held(self):
        return not self.deliverable("dst") and not self.deliverable("src") and not self.delayed["dst"] and not self.delayed["src"]


# ------------------------------------------------------------------ the simulation
class Session:
    """A source handler and a destination handler (with their entities, users, fault handlers and
    one shared event log) that can carry several consecutive transfers (C11)."""

    def __init__(self, cfg, name="t", src_vfs=None, dst_vfs=None, hook=None, alt_cfg=None):
        """alt_cfg: configuration of a second sending entity (different entity id, own MIB entry at
        the receiver) whose transfers can precede the subject on the same DestHandler (C11)."""
        self.cfg = norm_cfg(cfg)
        self.alt_cfg = None if alt_cfg is None else norm_cfg(alt_cfg)
        self.log = []
        self.root = fresh_dir(name)
        self.owner = object()
        prev = CLOCK.owner
        CLOCK.owner = self.owner
        self.src2 = None
        try:
            sh, self.src_user, self.src_fh, self.seqp = make_source(self.cfg, self.log, src_vfs, hook)
            extra = []
            if self.alt_cfg is not None:
                a = self.alt_cfg
                extra.append(remote_cfg_for(a, UnsignedByteField(a["src_id"][1], a["src_id"][0])))
                sh2, self.src2_user, self.src2_fh, self.seqp2 = make_source(a, self.log, src_vfs, hook)
                self.src2 = SrcEntity(sh2, self.log, self.cfg["transport"])
            dh, self.dst_user, self.dst_fh = make_dest(self.cfg, self.log, dst_vfs, hook, extra_remote=extra)
        finally:
            CLOCK.owner = prev
        self.src = SrcEntity(sh, self.log, self.cfg["transport"])
        self.dst = DstEntity(dh, self.log, self.cfg["transport"])
        self.ntransfers = 0

    def close(self):
        shutil.rmtree(self.root, ignore_errors=True)


class Sim:
    """Source entity, destination entity, link, clock - for one process-local run.

    case keys: cfg, file (bytes | spec | None for metadata-only), faults, pacing, inject, dest_kind
    ('file' | 'dir' | 'existing' | 'dir_existing'), fs_rejects (write call indices), msgs (list of bytes),
    tick_mode ('after' | 'exact').
    With `session` the handlers of an earlier transfer are reused (MIB-level configuration is the
    session's; request-level mode/closure, file, faults and pacing are this case's).
    """

    def __init__(self, case, name="t", src_vfs=None, dst_vfs=None, hook=None, keep_tracker=False, fresh_clock=True, session=None, alt_cfg=None):
        install_clock()
        if fresh_clock:
            CLOCK.reset()
        self.used_tracker_workaround = False if keep_tracker else workaround_shared_tracker()
        self.case = case
        self.cfg = norm_cfg(case.get("cfg"))
        self.hook = hook
        from .models import file_bytes

        content = file_bytes(case.get("file", b""))
        self.content = content
        rej = case.get("fs_rejects")
        if dst_vfs is None and rej and session is None:
            dst_vfs = RejectingFilestore(
                reject_writes=rej.get("writes", ()), reject_create=rej.get("create", False), reject_truncate=rej.get("truncate", False)
            )
        self.dst_vfs = dst_vfs
        self.own_session = session is None
        if session is None:
            session = Session(self.cfg, name, src_vfs, dst_vfs, hook, alt_cfg=alt_cfg)
        self.sess = session
        self.owner = session.owner
        self.log = session.log
        self.mark = len(self.log)
        self.root = session.root
        self.mem = bool(getattr(src_vfs, "is_mem", False))
        dk = case.get("dest_kind", "file")
        if self.mem:
            # purely in-memory filestores: none of these paths exists on the host (C16)
            from .memfs import MEM_ROOT

            base = Path(MEM_ROOT) / name
            self.sdir, self.ddir = base / "s", base / "d"
            src_vfs.mkdirs(self.sdir)
            dst_vfs.mkdirs(self.ddir)
            self.src_path = self.sdir / "src.bin"
            if dk in ("dir", "dir_existing"):
                dst_vfs.mkdirs(self.ddir / "sub")
                self.dest_arg = self.ddir / "sub"
                self.dest_path = self.ddir / "sub" / "src.bin"
                if dk == "dir_existing":
                    dst_vfs.put(self.dest_path, b"OLD-CONTENT-IN-DIRECTORY-" * 200)
            else:
                self.dest_arg = self.ddir / "dst.bin"
                self.dest_path = self.dest_arg
                if dk == "existing":
                    dst_vfs.put(self.dest_path, b"OLD-CONTENT-" * 7)
            if content is not None:
                src_vfs.put(self.src_path, content)
        else:
            self.sdir = self.root / "s"
            self.ddir = self.root / "d"
            for d in (self.sdir, self.ddir):
                if d.exists():
                    shutil.rmtree(d)
                d.mkdir()
            self.src_path = self.sdir / "src.bin"
            if dk in ("dir", "dir_existing"):
                (self.ddir / "sub").mkdir()
                self.dest_arg = self.ddir / "sub"
                self.dest_path = self.ddir / "sub" / "src.bin"
                if dk == "dir_existing":
                    # the directory already holds a (longer) file with the source's base name
                    self.dest_path.write_bytes(b"OLD-CONTENT-IN-DIRECTORY-" * 200)
            else:
                self.dest_arg = self.ddir / "dst.bin"
                self.dest_path = self.dest_arg
                if dk == "existing":
                    self.dest_path.write_bytes(b"OLD-CONTENT-" * 7)
            if content is not None:
                self.src_path.write_bytes(content)
        self.src, self.dst = session.src, session.dst
        self.src_user, self.src_fh, self.seqp = session.src_user, session.src_fh, session.seqp
        if case.get("via") == "alt":
            # transfer sent by the session's second sending entity (case cfg = its configuration)
            self.src = session.src2
            self.src_user, self.src_fh, self.seqp = session.src2_user, session.src2_fh, session.seqp2
        self.dst_user, self.dst_fh = session.dst_user, session.dst_fh
        self.src.ncalls = 0
        self.dst.ncalls = 0
        session.ntransfers += 1
        self.link = Link(case.get("faults"), self.log)
        self.ticks = 0
        self.outcome = None
        self.put_result = None
        self.put_exc = None
        self.steps = 0
        self.between = None  # optional callback run after every step (sibling handlers)
        self._fired = set()  # injections are one-shot

    # -- request
    def make_put_request(self):
        cfg = self.cfg
        msgs = None
        if self.case.get("msgs") is not None:
            from spacepackets.cfdp.tlv import MessageToUserTlv

            msgs = [MessageToUserTlv(m) for m in self.case["msgs"]]
        dst_id = UnsignedByteField(cfg["dst_id"][1], cfg["dst_id"][0])
        extra = {}
        opts = self.case.get("opts") or {}
        if opts.get("fs_requests") is not None:
            from spacepackets.cfdp import FileStoreRequestTlv
            from spacepackets.cfdp.tlv import FilestoreActionCode

            extra["fs_requests"] = [FileStoreRequestTlv(FilestoreActionCode(a), n) for a, n in opts["fs_requests"]]
        if opts.get("flow_label") is not None:
            from spacepackets.cfdp import FlowLabelTlv

            extra["flow_label_tlv"] = FlowLabelTlv(bytes(opts["flow_label"]))
        if opts.get("fh_overrides") is not None:
            from spacepackets.cfdp import FaultHandlerOverrideTlv

            extra["fault_handler_overrides"] = [FaultHandlerOverrideTlv(ConditionCode[c], FH_CODES[h]) for c, h in opts["fh_overrides"]]
        if self.content is None:
            return PutRequest(
                destination_id=dst_id,
                source_file=None,
                dest_file=None,
                trans_mode=None if cfg["req_mode"] is None else MODES[cfg["req_mode"]],
                closure_requested=cfg["req_closure"],
                msgs_to_user=msgs,
                **extra,
            )
        return PutRequest(
            destination_id=dst_id,
            source_file=self.src_path,
            dest_file=self.dest_arg,
            trans_mode=None if cfg["req_mode"] is None else MODES[cfg["req_mode"]],
            closure_requested=cfg["req_closure"],
            msgs_to_user=msgs,
            **extra,
        )

    def put(self):
        CLOCK.owner = self.owner
        try:
            self.put_result = self.src.h.put_request(self.make_put_request())
        except Exception as e:  # noqa: BLE001
            self.put_exc = e
            self.log.append(("exc", "src", 0, type(e).__name__, isinstance(e, LIB_EXC), "put_request: " + str(e)[:200]))
        self.log.append(("put", self.put_result))
        return self.put_result

    # -- stepping
    def _forward(self, pdus):
        for p in pdus:
            self.link.send(p)

    def _inject(self, side, ncall):
        for ii, inj in enumerate(self.case.get("inject") or []):
            iside, when, what = inj[0], inj[1], inj[2]
            if iside != side or when != ncall or ii in self._fired:
                continue
            self._fired.add(ii)
            ent = self.src if side == "src" else self.dst
            if what == "eofcancel":
                # an EOF (cancel) PDU with the given condition reaches the receiver now: size = file bytes the
                # sender has emitted so far, checksum = reference checksum of that prefix
                from .models import ref_checksum

                stid = self.src.h.transaction_id
                if stid is None:
                    continue
                sent = 0
                for e in self.tlog:
                    if e[0] == "emit" and e[1] == "src" and pdu_kind(e[3]) == "FD":
                        sent = max(sent, e[3].offset + len(e[3].file_data))
                content = self.content or b""
                conf = pdu_conf_for(self.cfg, stid.seq_num.value)
                eof = EofPdu(conf, ref_checksum(self.cfg["crc_type"] if self.content is not None else "NULL_CHECKSUM", content[:sent]), sent, condition_code=ConditionCode[inj[3]])
                self.log.append(("inject", side, "eofcancel", inj[3], sent, ncall))
                self._forward(self.dst.deliver(eof))
                continue
            if what == "cancel":
                right = inj[3] if len(inj) > 3 else True
                tid = ent.h.transaction_id
                was_busy = not ent.idle()
                had_tid = tid is not None
                self.log.append(("inject_begin", side, "cancel", ncall))
                if tid is not None and right in ("seq", "src"):
                    # near misses: same sequence number from another entity / same entity, next sequence number
                    if right == "seq":
                        tid = TransactionId(UnsignedByteField((tid.source_id.value + 1) % 250, tid.source_id.byte_len), tid.seq_num)
                    else:
                        tid = TransactionId(tid.source_id, UnsignedByteField((tid.seq_num.value + 1) % 250, tid.seq_num.byte_len))
                    right = False
                elif right is not True or tid is None:
                    tid = TransactionId(UnsignedByteField(77, 2), UnsignedByteField(12345, 2))
                    right = False
                try:
                    r = ent.h.cancel_request(tid)
                    self.log.append(("inject", side, "cancel", bool(right), r, ncall, was_busy, had_tid))
                except LIB_EXC as e:
                    self.log.append(("inject", side, "cancel", bool(right), "exc:" + type(e).__name__, ncall))
                except Exception as e:  # noqa: BLE001
                    ent.internal_error = e
                    self.log.append(("exc", side, ncall, type(e).__name__, False, "cancel_request: " + _where(e)))
                self._forward(ent.drain())
                ent._after_call(True)

    def step(self, side, with_pdu=True):
        ent = self.src if side == "src" else self.dst
        CLOCK.owner = self.owner
        self._inject(side, ent.ncalls + 1)
        pdu = self.link.pop(side) if with_pdu else None
        if pdu is not None:
            out = ent.deliver(pdu)
        else:
            out = ent.call(None)
        self._forward(out)
        self.steps += 1
        if self.between is not None:
            self.between(self)
            CLOCK.owner = self.owner
        return len(out) > 0 or pdu is not None

    def done(self):
        return self.src.idle() and self.dst.idle() and self.link.empty()

    def advance_clock(self, mode="after"):
        d = CLOCK.next_deadline(self.owner)
        if d is None:
            return False
        CLOCK.now = d + (1 if mode == "after" else 0)
        self.ticks += 1
        self.link.tick()
        self.log.append(("tick", CLOCK.now))
        return True

    def run(self, max_steps=4000, max_ticks=60, quiet_rounds=2):
        """Default driver: pacing script first, then round-robin; the clock advances to the next
        pending expiry only when the link is quiet and nobody produced anything."""
        if self.put_result is None and self.put_exc is None:
            self.put()
        if not self.put_result:
            self.outcome = "put-refused"
            return self.outcome
        pacing = list(self.case.get("pacing") or [])
        tick_mode = self.case.get("tick_mode", "after")
        polls = self.case.get("extra_polls") or (0, 0)  # idle state-machine calls after every regular call
        quiet = 0
        while self.steps < max_steps:
            if self.src.internal_error or self.dst.internal_error:
                self.outcome = "internal-error"
                return self.outcome
            if pacing:
                op = pacing.pop(0)
                side = "src" if op in ("s", "sn") else "dst"
                act = self.step(side, with_pdu=op in ("s", "d"))
                continue
            a = self.step("src")
            for _ in range(polls[0]):
                a = self.step("src", with_pdu=False) or a
            b = self.step("dst")
            for _ in range(polls[1]):
                b = self.step("dst", with_pdu=False) or b
            if a or b:
                quiet = 0
                continue
            if self.done():
                self.outcome = "done"
                return self.outcome
            if self.link.flush_delayed():
                continue
            quiet += 1
            if quiet < quiet_rounds:
                continue
            quiet = 0
            if self.ticks >= max_ticks:
                self.outcome = "tick-budget"
                return self.outcome
            if not self.advance_clock(tick_mode):
                if self.link.empty():
                    self.outcome = "deadlock"
                    return self.outcome
                # only held PDUs left and no timer pending: release them
                self.link.tick()
                self.ticks += 1
        self.outcome = "step-budget"
        return self.outcome

    # -- results
    def dest_bytes(self):
        if self.mem:
            return self.dst_vfs.get(self.dest_path)
        try:
            return self.dest_path.read_bytes()
        except (FileNotFoundError, IsADirectoryError):
            return None

    @property
    def tlog(self):
        """Events of this transfer only."""
        return self.log[self.mark :]

    def events(self, *kinds):
        return [e for e in self.tlog if e[0] in kinds]

    def finished_inds(self, side):
        return [e[3] for e in self.tlog if e[0] == "ind" and e[1] == side and e[2] == "finished"]

    def faults(self, side=None):
        return [e for e in self.tlog if e[0] == "fault" and (side is None or e[1] == side)]

    def excs(self, library=None):
        return [e for e in self.tlog if e[0] == "exc" and (library is None or e[4] == library)]

    def emitted(self, side):
        return [e[3] for e in self.tlog if e[0] == "emit" and e[1] == side]

    def close(self):
        if self.own_session:
            self.sess.close()


def summarize(sim: Sim) -> dict:
    return {
        "outcome": sim.outcome,
        "steps": sim.steps,
        "ticks": sim.ticks,
        "src_emitted": [pdu_kind(p) for p in sim.emitted("src")][:40],
        "dst_emitted": [pdu_kind(p) for p in sim.emitted("dst")][:40],
        "faults_applied": sim.link.applied[:20],
        "fault_callbacks": [list(e[1:]) for e in sim.faults()][:10],
        "exceptions": [list(e[1:5]) for e in sim.excs()][:10],
    }


# ------------------------------------------------------------------ single-handler rigs
class CallResult:
    __slots__ = ("out", "exc", "lib", "inds", "faults", "log")

    def __init__(self, out, exc, lib, log):
        self.out = out
        self.exc = exc
        self.lib = lib
        self.log = log
        self.inds = [e for e in log if e[0] == "ind"]
        self.faults = [e for e in log if e[0] == "fault"]


class Rig:
    """One handler driven directly, one call at a time, with everything observed per call."""

    def __init__(self, handler, log):
        self.h = handler
        self.log = log
        self.dead = None  # non-library exception that ended the run

    def _drain(self):
        out = []
        while True:
            holder = self.h.get_next_packet()
            if holder is None:
                break
            out.append(holder.pdu)
        return out

    def call(self, pdu=None, drain=True):
        mark = len(self.log)
        exc, lib = None, False
        try:
            self.h.state_machine(pdu)
        except LIB_EXC as e:
            exc, lib = e, True
        except Exception as e:  # noqa: BLE001
            exc = e
            self.dead = e
        out = self._drain() if drain else []
        return CallResult(out, exc, lib, self.log[mark:])

    def cancel(self, tid=None, drain=True):
        mark = len(self.log)
        exc, lib, r = None, False, None
        try:
            r = self.h.cancel_request(tid if tid is not None else self.h.transaction_id)
        except LIB_EXC as e:
            exc, lib = e, True
        except Exception as e:  # noqa: BLE001
            exc = e
            self.dead = e
        out = self._drain() if drain else []
        res = CallResult(out, exc, lib, self.log[mark:])
        return r, res

    def tick(self, mode="after"):
        d = CLOCK.next_deadline()
        if d is None:
            return False
        CLOCK.now = d + (1 if mode == "after" else 0)
        return True


def dest_rig(cfg, vfs=None, keep_tracker=False):
    install_clock()
    CLOCK.reset()
    if not keep_tracker:
        workaround_shared_tracker()
    log = []
    h, user, fh = make_dest(cfg, log, vfs)
    rig = Rig(h, log)
    rig.user, rig.fh = user, fh
    return rig


def source_rig(cfg, vfs=None, extra_remote=()):
    install_clock()
    CLOCK.reset()
    log = []
    h, user, fh, seqp = make_source(cfg, log, vfs, extra_remote=extra_remote)
    rig = Rig(h, log)
    rig.user, rig.fh, rig.seqp = user, fh, seqp
    return rig


def pdu_conf_for(cfg, seq, mode=None, direction=Direction.TOWARDS_RECEIVER):
    cfg = norm_cfg(cfg)
    w = id_width(cfg)
    return PduConfig(
        source_entity_id=UnsignedByteField(cfg["src_id"][1], w),
        dest_entity_id=UnsignedByteField(cfg["dst_id"][1], w),
        transaction_seq_num=UnsignedByteField(seq % (1 << cfg["seq_width"]), cfg["seq_width"] // 8),
        trans_mode=MODES[mode or eff_mode(cfg)],
        crc_flag=CrcFlag.WITH_CRC if cfg["pdu_crc"] else CrcFlag.NO_CRC,
        direction=direction,
    )
