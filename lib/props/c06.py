"""C06 - NAKs request exactly what is missing."""
from __future__ import annotations

from hypothesis import strategies as st
from spacepackets.cfdp import ConditionCode
from spacepackets.cfdp.pdu import EofPdu, FileDataPdu, MetadataParams, MetadataPdu
from spacepackets.cfdp.pdu.file_data import FileDataParams

from .. import models, sim
from ..core import Out, Result, hyp_search, verdict
from ..models import IntervalSet

ID = "C06"
LEVEL = "exploration"
TECHNIQUE = "Hypothesis-generated arrival orders / losses / duplications / timer expiries on one DestHandler; NAK requests compared with an interval-set model of the bytes stored"
LEVEL_TEXT = (
    "A grid-segmented file is delivered to one acknowledged-mode DestHandler in a generated order with losses and duplicates, Metadata and "
    "EOF at any position, NAK-timer expiries and (partial) retransmissions of what the NAKs asked for; max_packet_len is chosen so that a "
    "NAK PDU holds 1, 2, 3 or many requests. Every emitted NAK is checked against an interval-set model of the bytes stored so far."
)
LEVEL_NOTE = "Sampled. Trusts IntervalSet and the NAK size arithmetic in lib/models.py. 'Stored' is read off the File-Segment-Recv indication."
RULE = (
    "case = (size, segment length, NAK mode, requests-per-NAK-PDU class, id/seq widths, CRC flag) + arrival script: permutation of "
    "[Metadata, segments..., EOF] with per-item keep/drop/dup, then a tail of {tick, idle, retransmit(request k, chunk mask), late segment, "
    "Metadata, EOF, empty File Data PDU, grid-unaligned File Data PDU}; one script in six also has an empty File Data PDU in its initial part. Non-trivial: a deferred NAK sequence with >= 2 gaps or >= 2 PDUs, or an immediate NAK after a reordering. "
    "Distinct = distinct case."
)
ASSUMPTIONS = [
    "the 'exactly the missing set' clause is applied to NAKs emitted by calls whose input is not a File Data PDU (timer expiry, idle call, "
    "Metadata): only those are certain to stem from the deferred procedure; NAKs of calls with File Data input get the per-request clauses",
    "max_packet_len >= length of a NAK PDU with one segment request (DESIGN 3.6)",
    "retransmitted data is re-chunked from the start of the requested range with the sender's segment length (what SourceHandler does)",
    "a NAK is computed at some point during the emitting call: for the (0,0) and in-extent/disjointness clauses the state before the call is used, "
    "for the deferred 'exactly the missing set' clause the state before or after the call's own input are both accepted",
    "F01 workaround: the shared default tracker is cleared before each case on trees where it is shared (C11's finding)",
]


@st.composite
def case_strategy(draw):
    seg = draw(st.sampled_from([1, 2, 3, 4, 8, 16]))
    nseg = draw(st.integers(1, 12))
    rem = draw(st.integers(0, seg - 1)) if draw(st.booleans()) else 0
    size = max(1, nseg * seg - rem)
    w = draw(st.sampled_from([1, 2, 4, 8]))
    sw = draw(st.sampled_from([8, 16, 32]))
    crc = draw(st.booleans())
    per = draw(st.sampled_from([1, 1, 2, 3, 30]))
    cfg = {
        "mode": "ACK",
        "immediate_nak": draw(st.booleans()),
        "src_id": [w, 1],
        "dst_id": [w, 2],
        "seq_width": sw,
        "pdu_crc": crc,
        "max_pkt": models.nak_len(w, sw // 8, crc, per) + draw(st.integers(0, 7)),
        "nak_limit": draw(st.sampled_from([2, 3, 5])),
        "nak_ms": draw(st.sampled_from([2, 1000])),
        "max_seg": seg,
    }
    n = (size + seg - 1) // seg
    items = ["md"] + [["seg", i] for i in range(n)] + ["eof"]
    order = draw(st.permutations(items)) if draw(st.integers(0, 2)) else items
    if draw(st.booleans()) and "md" in order:
        # usual shape: metadata first (possibly lost), data reordered
        order = ["md"] + [x for x in order if x != "md"]
    if draw(st.integers(0, 5)) == 0:
        # an empty File Data PDU somewhere in the initial stream (also before the Metadata PDU)
        pos = draw(st.integers(0, len(order)))
        order = list(order[:pos]) + [["eseg", draw(st.integers(0, n))]] + list(order[pos:])
    script = []
    for it in order:
        act = draw(st.sampled_from(["keep", "keep", "keep", "drop", "dup"]))
        if act == "drop":
            continue
        script.append(it)
        if act == "dup":
            script.append(it)
    tail_op = st.one_of(
        st.just("tick"), st.just("tick"), st.just("idle"),
        st.tuples(st.just("rtx"), st.integers(0, 5), st.integers(0, 255)).map(list),
        st.tuples(st.just("rtx"), st.integers(0, 5), st.just(255)).map(list),
        st.tuples(st.just("seg"), st.integers(0, n - 1)).map(list),
        st.just("md"), st.just("eof"),
        st.tuples(st.just("eseg"), st.integers(0, n)).map(list),
        st.tuples(st.just("fdx"), st.integers(0, max(size - 1, 0)), st.integers(1, 2 * seg + 1)).map(list),
    )
    script += draw(st.lists(tail_op, max_size=24))
    return {"cfg": cfg, "size": size, "seg": seg, "script": script, "pat": draw(st.binary(min_size=1, max_size=8))}


def evaluate(case):
    cfg = sim.norm_cfg(case["cfg"])
    size, seg = case["size"], case["seg"]
    content = models.file_bytes({"pat": case["pat"], "size": size})
    root = sim.fresh_dir("c06")
    dest = root / "d.bin"
    rig = sim.dest_rig(cfg)
    h = rig.h
    from cfdppy.defs import CfdpState

    conf = lambda: sim.pdu_conf_for(cfg, 9, "ACK")
    csum = models.ref_checksum(cfg["crc_type"], content)
    stored = IntervalSet()
    md_ok = False
    eof_ok = False
    extent = 0
    last_reqs = []
    vs = []
    max_end_seen = -1
    reordered = False
    facts = {"deferred_seq": 0, "deferred_multi": 0, "immediate_nak": 0, "immediate_after_reorder": 0, "completed": 0, "limit": 0, "md_late": 0, "nak_pdus": 0, "internal_error": 0}
    nt = False
    started = False
    trace = []
    idle_after_complete = 0
    fin_emitted = False
    for idx, op in enumerate(case["script"] + ["idle", "idle", "idle"]):
        if rig.dead is not None:
            facts["internal_error"] += 1
            break
        kind = op if isinstance(op, str) else op[0]
        pdus = [None]
        delivered = []
        if kind == "md":
            pdus = [MetadataPdu(conf(), MetadataParams(False, sim.CSUMS[cfg["crc_type"]], size, "/s/src.bin", str(dest)))]
        elif kind == "seg":
            o = op[1] * seg
            data = content[o : o + seg]
            pdus = [FileDataPdu(conf(), FileDataParams(data, o))]
        elif kind == "fdx":
            # a File Data PDU that is not aligned to the grid (a sender that segments differently)
            o = min(op[1], size - 1)
            ln = max(1, min(op[2], size - o))
            pdus = [FileDataPdu(conf(), FileDataParams(content[o : o + ln], o))]
        elif kind == "eseg":
            # a File Data PDU with an empty payload (legal, never stores anything)
            pdus = [FileDataPdu(conf(), FileDataParams(b"", min(op[1] * seg, size)))]
        elif kind == "eof":
            pdus = [EofPdu(conf(), csum, size)]
        elif kind == "tick":
            rig.tick()
        elif kind == "rtx":
            reqs = [r for r in last_reqs if r != (0, 0)]
            k, mask = op[1], op[2]
            pdus = []
            if (0, 0) in last_reqs and (mask & 1):
                pdus.append(MetadataPdu(conf(), MetadataParams(False, sim.CSUMS[cfg["crc_type"]], size, "/s/src.bin", str(dest))))
            if reqs:
                s, e = reqs[k % len(reqs)]
                e = min(e, size)
                ci = 0
                while s < e:
                    ln = min(seg, e - s)
                    if (mask >> (ci % 8)) & 1:
                        pdus.append(FileDataPdu(conf(), FileDataParams(content[s : s + ln], s)))
                    s += ln
                    ci += 1
            if not pdus:
                continue
        for pdu in pdus:
            if not started and pdu is None:
                continue
            started = True
            stored_before = stored.copy()
            md_before = md_ok
            res = rig.call(pdu)
            if any(sim.pdu_kind(p) == "FIN" for p in res.out):
                fin_emitted = True
            pk = None if pdu is None else sim.pdu_kind(pdu)
            trace.append([kind if pdu is None else pk, None if res.exc is None else type(res.exc).__name__, h.step.name, [sim.pdu_desc(p).get("reqs", sim.pdu_kind(p)) for p in res.out]])
            if res.exc is not None and not res.lib:
                facts["internal_error"] += 1
                break
            if pk == "FD":
                max_end = pdu.offset + len(pdu.file_data)
                if pdu.offset + len(pdu.file_data) <= max_end_seen:
                    reordered = True
                if pdu.offset < max_end_seen:
                    reordered = True
                max_end_seen = max(max_end_seen, max_end)
                if not eof_ok:
                    extent = max(extent, max_end)
            for e in res.inds:
                if e[2] == "metadata_recv":
                    if eof_ok or stored.r or max_end_seen >= 0:
                        facts["md_late"] = 1
                    md_ok = True
                elif e[2] == "segment_recv":
                    stored.add(e[3]["off"], e[3]["off"] + e[3]["len"])
                elif e[2] == "eof_recv":
                    eof_ok = True
                    extent = size
                elif e[2] == "finished":
                    facts["completed"] = 1
            if any(f[4] == int(ConditionCode.NAK_LIMIT_REACHED) for f in res.faults):
                facts["limit"] = 1
            naks = [p for p in res.out if sim.pdu_kind(p) == "NAK"]
            facts["nak_pdus"] += len(naks)
            tagm = "imm" if cfg["immediate_nak"] else "def"
            allreq = []
            deferred_call = eof_ok and pk not in ("EOF", "FD")
            for p in naks:
                raw = bytes(p.pack())
                # length and scope clauses are stated for the deferred procedure's NAK sequence
                if deferred_call and len(raw) > cfg["max_pkt"]:
                    vs.append(verdict("nak-length", f"C06/nak-too-long/{'md-missing' if not md_before else 'md-present'}", f"step {idx}: {len(raw)} > {cfg['max_pkt']} with {len(p.segment_requests)} requests"))
                for (s, e2) in p.segment_requests:
                    allreq.append((s, e2))
                    if (s, e2) == (0, 0):
                        if md_before:
                            vs.append(verdict("metadata-request", "C06/metadata-requested-though-present", f"step {idx}"))
                        continue
                    if not (0 <= s < e2 <= extent):
                        vs.append(verdict("request-in-extent", f"C06/request-outside-extent/{'eof' if eof_ok else 'pre-eof'}", f"step {idx}: ({s},{e2}) extent {extent}"))
                    elif not eof_ok and pk == "FD" and stored.intersects(s, e2):
                        # before the EOF every NAK stems from handling this very File Data PDU: it must
                        # not ask for bytes stored so far including the segment that triggered it
                        vs.append(verdict("request-only-missing", "C06/request-covers-stored-bytes/pre-eof", f"step {idx}: ({s},{e2}) stored {stored.r}"))
                    elif stored_before.intersects(s, e2):
                        vs.append(verdict("request-only-missing", f"C06/request-covers-stored-bytes/{'eof' if eof_ok else 'pre-eof'}", f"step {idx}: ({s},{e2}) stored {stored_before.r}"))
                    if deferred_call and not (p.start_of_scope <= s and e2 <= p.end_of_scope):
                        vs.append(verdict("scope-encloses", "C06/scope-does-not-enclose", f"step {idx}: ({s},{e2}) scope ({p.start_of_scope},{p.end_of_scope})"))
            if naks:
                last_reqs = allreq
            if naks and eof_ok and pk not in ("EOF", "FD"):
                # No File Data input in this call, so every NAK in it comes from the deferred procedure
                # (first issue or re-issue after an expiry): the sequence must ask for exactly what is
                # missing. (A call with File Data input may also emit immediate-mode NAKs; there only
                # the per-request clauses apply.)
                facts["deferred_seq"] += 1
                # the sequence is computed at some point during the call: the state before or after the
                # call's own input was handled are both accepted
                want = stored.clipped(0, size).complement(0, size)
                want_b = stored_before.clipped(0, size).complement(0, size)
                got = IntervalSet([r for r in allreq if r != (0, 0)])
                if got != want and got != want_b:
                    vs.append(verdict("deferred-exact", f"C06/deferred-sequence-not-exact/{'md-missing' if not md_before else 'md-present'}", f"step {idx}: requested {got.r} missing {want_b.r} (before the call) / {want.r} (after)"))
                if ((0, 0) in allreq) != (not md_ok) and ((0, 0) in allreq) != (not md_before):
                    vs.append(verdict("metadata-request", "C06/deferred-metadata-request-wrong", f"step {idx}: md present before={md_before} after={md_ok} reqs {allreq}"))
                if len(want.r) >= 2 or len(naks) >= 2:
                    facts["deferred_multi"] += 1
                    nt = True
            elif naks:
                facts["immediate_nak"] += 1
                if reordered:
                    facts["immediate_after_reorder"] += 1
                    nt = True
            if vs:
                break
            # nothing missing after the EOF: no NAK, and completion follows
            if eof_ok and md_ok and stored.contains(0, size) and h.state == CfdpState.BUSY and pdu is None:
                if naks:
                    vs.append(verdict("no-nak-when-complete", "C06/nak-although-nothing-missing", f"step {idx}"))
                idle_after_complete += 1
                if idle_after_complete >= 3 and kind == "idle" and not fin_emitted:
                    vs.append(verdict("proceeds-to-completion", f"C06/no-completion-although-nothing-missing/{h.step.name}", f"step {idx}: step {h.step.name}"))
        if vs or h.state == CfdpState.IDLE and started and (facts["completed"] or facts["limit"]):
            break
    classes = [k for k, v in facts.items() if v]
    classes.append("imm" if cfg["immediate_nak"] else "deferred-mode")
    return Result(vs, nt, classes, {"trace": trace[:30], "size": size, "seg": seg, "max_pkt": cfg["max_pkt"]})


def replay(case):
    return evaluate(case).verdicts


PARAMS = {"quick": 1200, "thorough": 30000}


def shard(ctx):
    out = Out()
    hyp_search(out, ctx["known"], case_strategy(), evaluate, PARAMS[ctx["tier"]], ctx["seed"])
    sim.cleanup_sandbox()
    from .. import fuzz

    fuzz.thorough_stage("C06", ctx, out)
    return out


def selftest(merged, tier):
    c = merged["classes"]
    for k in ("deferred_seq", "deferred_multi", "immediate_after_reorder", "completed", "md_late"):
        if c.get(k, 0) < 20:
            return f"class {k} nearly empty: {c.get(k, 0)}"
    return None
