"""C02 - every transfer over a fault-free link completes successfully in every mode."""
from __future__ import annotations

from hypothesis import strategies as st

from .. import models, sim
from .. import strategies as S
from ..core import Out, Result, hyp_search, verdict

ID = "C02"
LEVEL = "exploration"
TECHNIQUE = "Hypothesis-generated configurations, files and pacing scripts run through a deterministic two-entity simulator; completion oracle"
LEVEL_TEXT = (
    "Samples the configuration cross product (mode x closure x request/MIB overrides x 4 checksum types x PDU CRC x "
    "entity-id widths x sequence width and wrap x segment length x packet length x NAK mode x transport), file-size "
    "classes around the segment length, destination shapes and pacing scripts over a link that delivers everything once "
    "and in order; each case must end with identical files, one successful Transaction-Finished per side, both handlers "
    "idle, no fault callback and no exception."
)
LEVEL_NOTE = (
    "Sampled, not exhaustive. Trusts the simulator's entity layer (drain after every call, answers for closed "
    "transactions) as a faithful reading of the documented user duties, and spacepackets' PDU classes."
)
RULE = (
    "case = configuration (DESIGN 3.6) + file spec (size biased to 0, 1, seg-1, seg, seg+1, k*seg, k*seg+r; or metadata-only) "
    "+ destination shape (file / directory / existing file) + message-to-user options + pacing script (bursts, idle calls) + "
    "transport (object copy or pack/parse). Every case is a complete transfer, so every case is non-trivial; distinct = "
    "distinct (mode, closure, checksum, CRC flag, id widths, sequence width, segment class, size class, destination shape, "
    "transport, pacing class, NAK mode) tuple."
)
ASSUMPTIONS = [
    "max_packet_len is at least what the fixed-size PDUs need (EOF; in acknowledged mode a NAK with one request); no "
    "implementation can respect a smaller limit",
    "the clock advances only when the link is empty and neither side produced anything for two rounds (fault-free link: "
    "no PDU is late)",
    "retry limits stay at their defaults (>=2): C02 does not quantify over limits",
    "message-to-user payloads of >=5 bytes start with four ASCII bytes (spacepackets 0.26.1 is_reserved_cfdp_message() "
    "raises UnicodeDecodeError otherwise: dependency quirk)",
    "spacepackets 0.26.1 EofPdu.unpack leaves the condition code unshifted; the wire transport normalises that field",
]


@st.composite
def case_strategy(draw):
    cfg = draw(S.cfgs())
    case = {"cfg": cfg}
    case["file"] = draw(S.file_specs(cfg, max_bytes=4096, allow_none=True))
    if case["file"] is not None:
        case["dest_kind"] = draw(st.sampled_from(["file", "file", "dir", "existing", "dir_existing"]))
    if draw(st.integers(0, 3)) == 0:
        case["msgs"] = draw(st.lists(S.user_messages(), min_size=0, max_size=3))
    case["pacing"] = draw(S.pacing_scripts())
    if draw(st.integers(0, 3)) == 0:
        # the same handler objects first carry one or two other fault-free transfers (every put request is a subject
        # of C02, also the second and third on a handler); sizes biased to the special cases empty / metadata-only
        prev = []
        for _ in range(draw(st.integers(1, 2))):
            f = draw(st.one_of(st.none(), st.just({"pat": b"x", "size": 0}), S.file_specs(cfg, max_bytes=600, allow_none=True)))
            t = {"file": f, "req_mode": draw(st.sampled_from([None, "ACK", "NAK"])), "req_closure": draw(st.sampled_from([None, True, False]))}
            prev.append(t)
        case["before"] = prev
    return case


def _check(s, case, cfg, outcome, pos):
    content = s.content
    vs = []
    tag = f"{sim.eff_mode(cfg)}/{'closure' if sim.eff_closure(cfg) else 'noclosure'}/{'mdonly' if content is None else 'file'}{pos}"
    excs = s.excs()
    if s.put_exc is not None or s.put_result is not True:
        vs.append(verdict("put-accepted", f"C02/put-request/{type(s.put_exc).__name__ if s.put_exc else s.put_result}{pos}", f"{s.put_exc!r}"))
    elif excs:
        e = excs[0]
        vs.append(verdict("no-api-call-raises", f"C02/exception/{e[1]}/{e[3]}/{tag}", f"call {e[2]}: {e[5]}"))
    elif outcome != "done":
        vs.append(verdict("runs-to-completion", f"C02/not-completed/{outcome}/{tag}", f"src step {s.src.h.step} dst step {s.dst.h.step}"))
    else:
        if content is not None:
            got = s.dest_bytes()
            if got != content:
                vs.append(verdict("file-identical", f"C02/file-differs/{tag}", f"want {len(content)} bytes got {None if got is None else len(got)}"))
        for side in ("src", "dst"):
            fins = s.finished_inds(side)
            if len(fins) != 1:
                vs.append(verdict("one-finished-indication", f"C02/finished-count/{side}/{len(fins)}/{tag}", str(fins)[:300]))
                continue
            f = fins[0]
            if f["cond"] != 0 or f["delivery"] != 0:
                vs.append(verdict("successful-finished", f"C02/finished-not-success/{side}/{tag}", str(f)))
            if side == "dst" and content is not None and f["status"] != 2:
                vs.append(verdict("successful-finished", f"C02/file-status/{side}/{tag}", str(f)))
        fl = s.faults()
        if fl:
            vs.append(verdict("no-fault-callback", f"C02/fault-callback/{fl[0][1]}/{fl[0][2]}/{fl[0][4]}/{tag}", str(fl[:3])))
        if s.src.h.num_packets_ready or s.dst.h.num_packets_ready:
            vs.append(verdict("queues-empty", f"C02/packets-left/{tag}", ""))
    return vs


def evaluate(case):
    cfg = sim.norm_cfg(case["cfg"])
    sess = None
    vs = []
    nbefore = 0
    if case.get("before"):
        sim.install_clock()
        sim.CLOCK.reset()
        sess = sim.Session(cfg, "t")
        for t in case["before"]:
            c = dict(cfg)
            c["req_mode"], c["req_closure"] = t.get("req_mode"), t.get("req_closure")
            ps = sim.Sim({"cfg": c, "file": t["file"]}, session=sess, fresh_clock=False)
            o = ps.run(max_steps=6000, max_ticks=12)
            nbefore += 1
            vs = _check(ps, t, sim.norm_cfg(c), o, "/earlier-transfer-on-same-handlers")
            if vs:
                break
    s = sim.Sim(case, session=sess, fresh_clock=sess is None)
    try:
        if vs:
            return Result(vs, True, ["earlier-transfer-failed"], sim.summarize(s))
        outcome = s.run(max_steps=6000, max_ticks=12)
        content = s.content
        vs = _check(s, case, cfg, outcome, "/after-earlier-transfers" if nbefore else "")
        seg = S.eff_seg_len(cfg)
        size = None if content is None else len(content)
        key = (
            sim.eff_mode(cfg), sim.eff_closure(cfg), cfg["crc_type"], cfg["pdu_crc"], cfg["src_id"][0], cfg["dst_id"][0],
            cfg["seq_width"], "none" if cfg["max_seg"] is None else ("1-3" if cfg["max_seg"] <= 3 else "n"),
            S.size_class(size, seg), case.get("dest_kind"), cfg["transport"], S.pacing_class(case.get("pacing")), cfg["immediate_nak"],
            str(case.get("before")),
        )
        classes = [f"mode:{key[0]}", f"closure:{key[1]}", f"csum:{key[2]}", f"size:{key[8]}", f"pacing:{key[11]}", f"transport:{key[10]}", f"dest:{key[9]}",
                   f"idw:{key[4]}/{key[5]}", f"seqw:{key[6]}", f"pdu_crc:{key[3]}"]
        if nbefore:
            classes.append("after-earlier-transfers")
        if s.ticks:
            classes.append("needed-timer-expiry")
        if s.used_tracker_workaround:
            classes.append("shared-tracker-workaround")
        return Result(vs, True, classes, sim.summarize(s), nt_key=key)
    finally:
        s.close()
        if sess is not None:
            sess.close()


def replay(case):
    return evaluate(case).verdicts


PARAMS = {"quick": 1200, "thorough": 30000}


def shard(ctx):
    out = Out()
    hyp_search(out, ctx["known"], case_strategy(), evaluate, PARAMS[ctx["tier"]], ctx["seed"])
    sim.cleanup_sandbox()
    return out


def selftest(merged, tier):
    c = merged["classes"]
    for k in ("mode:ACK", "mode:NAK", "size:metadata-only", "size:0", "size:k*seg", "pacing:mixed", "transport:wire", "dest:dir", "dest:existing"):
        if c.get(k, 0) < 20:
            return f"class {k} nearly empty: {c.get(k, 0)}"
    return None
