"""C17 - native filestore operations match a reference file-system model."""
from __future__ import annotations

import os
import shutil

from hypothesis import strategies as st

from .. import sim
from ..core import Out, Result, hyp_search, verdict

ID = "C17"
LEVEL = "exploration"
TECHNIQUE = "Hypothesis-generated operation histories on NativeFilestore in a sandbox, compared step by step with a dict-based file-system model"
LEVEL_TEXT = (
    "Operation histories (create, delete, rename, replace, mkdir, rmdir, truncate, write/read at offset, size, exists, is_directory) over "
    "a universe of 8 names in a sandbox directory; after every operation the returned code/data and a full snapshot of the sandbox tree "
    "are compared with a reference model of the documented semantics."
)
LEVEL_NOTE = "Sampled histories up to 40 operations. Trusts the FsModel in this file; corners the documentation leaves open are accepted as 'may raise OSError, tree unchanged'."
RULE = (
    "history = initial population of a subset of the names + list of <= 40 operations with operands drawn from {a, b, c, d1, d2, d1/a, d1/b, d1/d3}, offsets <= 64, payloads <= 16 bytes. "
    "Non-trivial: a refused operation after >= 3 successful mutating ones, or a write beyond the end of a file. Distinct = distinct history."
)
ASSUMPTIONS = [
    "undefined corners (missing parent directory, truncate/write/read on a directory) may raise OSError but must leave the tree unchanged",
    "file_size of a directory is not asserted; replace_file: the replaced file gets the source's content, survival of the source is not asserted",
    "rmdir of a non-empty directory without 'recursive' must return a refusal code of the remove-directory family and change nothing",
]

NAMES = ["a", "b", "c", "d1", "d2", "d1/a", "d1/b", "d1/d3"]
DIR = "<dir>"
OPS = ["create", "delete", "rename", "replace", "mkdir", "rmdir", "truncate", "write", "read", "size", "exists", "isdir"]


def op_strategy():
    return st.tuples(
        st.sampled_from(OPS + ["create", "mkdir", "write", "write"]),
        st.integers(0, len(NAMES) - 1),
        st.integers(0, len(NAMES) - 1),
        st.one_of(st.integers(0, 8), st.integers(0, 64)),
        st.binary(min_size=0, max_size=16),
        st.booleans(),
    )


def case_strategy():
    return st.fixed_dictionaries(
        {
            "init": st.lists(st.one_of(st.none(), st.binary(max_size=12)), min_size=len(NAMES), max_size=len(NAMES)),
            "ops": st.lists(op_strategy(), min_size=1, max_size=40),
        }
    )


IS_DIR_NAME = {"d1", "d2", "d1/d3"}


class FsModel:
    def __init__(self):
        self.t = {}

    def kind(self, p):
        v = self.t.get(p)
        if v is None:
            return None
        return "dir" if v == DIR else "file"

    def parent_ok(self, p):
        if "/" not in p:
            return True
        return self.t.get(p.rsplit("/", 1)[0]) == DIR

    def children(self, p):
        return [k for k in self.t if k.startswith(p + "/")]

    def snapshot(self):
        return {k: (None if v == DIR else bytes(v)) for k, v in self.t.items()}


def evaluate(case):
    from cfdppy.filestore import FilestoreResult as R
    from cfdppy.filestore import NativeFilestore

    root = sim.proc_dir("c17")
    for entry in os.listdir(root):
        fp = root / entry
        shutil.rmtree(fp) if fp.is_dir() else os.remove(fp)
    fs = NativeFilestore()
    m = FsModel()
    for n, content in zip(NAMES, case.get("init") or []):
        # initial population, done behind the filestore's back (plain os calls) and mirrored in the model
        if content is None or not m.parent_ok(n):
            continue
        if n in IS_DIR_NAME:
            os.mkdir(root / n)
            m.t[n] = DIR
        else:
            (root / n).write_bytes(bytes(content))
            m.t[n] = bytes(content)
    vs = []
    succ = 0
    facts = {"refused_after_3": False, "write_beyond": False, "undefined": 0}
    trace = []
    for idx, op in enumerate(case["ops"]):
        name, i, j, off, payload, flag = op
        payload = bytes(payload)
        p, q = NAMES[i], NAMES[j]
        P, Q = root / p, root / q
        kp, kq = m.kind(p), m.kind(q)
        before = m.snapshot()
        expect = None  # ("code", R.x) | ("data", bytes) | ("raises", exc types) | ("bool", b) | ("any",)
        allowed_exc = ()
        if name == "create":
            if kp is not None or not m.parent_ok(p):
                expect = ("code", {R.CREATE_NOT_ALLOWED})
            else:
                expect = ("code", {R.CREATE_SUCCESS})
                m.t[p] = b""
            call = lambda: fs.create_file(P)
        elif name == "delete":
            if kp is None:
                expect = ("code", {R.DELETE_FILE_DOES_NOT_EXIST})
            elif kp == "dir":
                expect = ("code", {R.DELETE_NOT_ALLOWED})
            else:
                expect = ("code", {R.DELETE_SUCCESS})
                del m.t[p]
            call = lambda: fs.delete_file(P)
        elif name == "rename":
            if kp == "dir" or kq == "dir":
                expect = ("code", {R.RENAME_NOT_PERFORMED, R.RENAME_NOT_ALLOWED})
            elif kp is None:
                expect = ("code", {R.RENAME_OLD_FILE_DOES_NOT_EXIST})
            elif kq is not None:
                expect = ("code", {R.RENAME_NEW_FILE_DOES_EXIST})
            elif not m.parent_ok(q):
                expect = ("undefined",)
            else:
                expect = ("code", {R.RENAME_SUCCESS})
                m.t[q] = m.t.pop(p)
            call = lambda: fs.rename_file(P, Q)
        elif name == "replace":
            # replace_file(replaced=P, source=Q)
            if kp == "dir" or kq == "dir":
                expect = ("code", {R.REPLACE_NOT_ALLOWED, R.REPLACE_NOT_PERFORMED})
            elif kp is None:
                expect = ("code", {R.REPLACE_FILE_NAME_ONE_TO_BE_REPLACED_DOES_NOT_EXIST})
            elif kq is None:
                expect = ("code", {R.REPLACE_FILE_NAME_TWO_REPLACE_SOURCE_NOT_EXIST})
            else:
                expect = ("replace",)
                m.t[p] = m.t[q]
            call = lambda: fs.replace_file(P, Q)
        elif name == "mkdir":
            if kp is not None:
                expect = ("code", {R.CREATE_DIR_CAN_NOT_BE_CREATED})
            elif not m.parent_ok(p):
                expect = ("undefined_or_code", {R.CREATE_DIR_CAN_NOT_BE_CREATED, R.CREATE_DIR_NOT_PERFORMED})
            else:
                expect = ("code", {R.CREATE_DIR_SUCCESS})
                m.t[p] = DIR
            call = lambda: fs.create_directory(P)
        elif name == "rmdir":
            if kp is None:
                expect = ("code", {R.REMOVE_DIR_DOES_NOT_EXIST})
            elif kp == "file":
                expect = ("code", {R.REMOVE_DIR_NOT_ALLOWED})
            elif flag:
                expect = ("code", {R.REMOVE_DIR_SUCCESS})
                for c in m.children(p):
                    del m.t[c]
                del m.t[p]
            elif m.children(p):
                expect = ("code", {R.REMOVE_DIR_NOT_ALLOWED, R.REMOVE_DIR_NOT_PERFORMED, R.REMOVE_DIR_DOES_NOT_EXIST})
            else:
                expect = ("code", {R.REMOVE_DIR_SUCCESS})
                del m.t[p]
            call = lambda: fs.remove_directory(P, flag)
        elif name == "truncate":
            if kp is None:
                expect = ("raises", (FileNotFoundError,))
            elif kp == "dir":
                expect = ("undefined",)
            else:
                expect = ("none",)
                m.t[p] = b""
            call = lambda: fs.truncate_file(P)
        elif name == "write":
            o = None if (flag and off == 0) else off
            if kp is None:
                expect = ("raises", (FileNotFoundError,))
            elif kp == "dir":
                expect = ("undefined",)
            else:
                expect = ("none",)
                cur = bytearray(m.t[p])
                oo = o or 0
                if payload:
                    if oo > len(cur):
                        facts["write_beyond"] = True
                        cur.extend(b"\x00" * (oo - len(cur)))
                    cur[oo : oo + len(payload)] = payload
                m.t[p] = bytes(cur)
            call = lambda: fs.write_data(P, payload, o)
        elif name == "read":
            rl = len(payload) if not flag else None
            if kp is None:
                expect = ("raises", (FileNotFoundError,))
            elif kp == "dir":
                expect = ("undefined",)
            else:
                data = m.t[p]
                expect = ("data", data[off : off + rl] if rl is not None else data[off:])
            # "offset ... may be None": reading without an offset starts at the beginning of the file
            ro = None if (off == 0 and len(payload) % 2 == 1) else off
            call = lambda: fs.read_data(P, ro, rl)
        elif name == "size":
            if kp is None:
                expect = ("raises", (FileNotFoundError,))
            elif kp == "dir":
                expect = ("any",)
            else:
                expect = ("value", len(m.t[p]))
            call = lambda: fs.file_size(P)
        elif name == "exists":
            expect = ("value", kp is not None)
            call = lambda: fs.file_exists(P)
        elif name == "isdir":
            expect = ("value", kp == "dir")
            call = lambda: fs.is_directory(P)
        else:
            raise ValueError(name)
        try:
            res = call()
            exc = None
        except Exception as e:  # noqa: BLE001
            res, exc = None, e
        where = f"step {idx} {name}({p}{',' + q if name in ('rename', 'replace') else ''}{',recursive' if name == 'rmdir' and flag else ''}) operands {kp}/{kq}"
        trace.append([name, p, q if name in ("rename", "replace") else None, None if exc is None else type(exc).__name__, None if res is None or isinstance(res, (bytes, bool)) else str(getattr(res, "name", res))])
        kind = expect[0]
        sigbase = f"C17/{name}/{kp or 'missing'}" + (f"-{kq or 'missing'}" if name in ("rename", "replace") else "") + ("/recursive" if name == "rmdir" and flag else "") + ("/nonempty" if name == "rmdir" and kp == "dir" and before != m.snapshot() is False else "")
        if name == "rmdir" and kp == "dir" and not flag and [k for k in before if k.startswith(p + "/")]:
            sigbase += "/nonempty"
        mutating_success = False
        if kind in ("undefined", "undefined_or_code"):
            facts["undefined"] += 1
            if exc is not None and not isinstance(exc, OSError):
                vs.append(verdict("undefined-corner", sigbase + f"/raised-{type(exc).__name__}", f"{where}: {exc!r}"))
            if exc is None and kind == "undefined_or_code" and res not in expect[1]:
                vs.append(verdict("refusal-code", sigbase + f"/code-{getattr(res, 'name', res)}", where))
            if exc is None and kind == "undefined":
                # the documentation is silent; whatever was returned, the tree must be unchanged
                pass
            m.t = {k: (DIR if v is None else v) for k, v in before.items()}
        elif exc is not None:
            if kind == "raises" and isinstance(exc, expect[1]):
                pass
            else:
                vs.append(verdict("result", sigbase + f"/raised-{type(exc).__name__}", f"{where}: {exc!r}, expected {expect}"))
        elif kind == "raises":
            vs.append(verdict("result", sigbase + "/did-not-raise", f"{where}: returned {res!r}"))
        elif kind == "code":
            if res not in expect[1]:
                vs.append(verdict("status-code", sigbase + f"/code-{getattr(res, 'name', res)}", f"{where}: expected one of {[c.name for c in expect[1]]}"))
            else:
                mutating_success = res.name.endswith("SUCCESS")
                if not mutating_success and succ >= 3:
                    facts["refused_after_3"] = True
        elif kind == "replace":
            if res != R.REPLACE_SUCCESS:
                vs.append(verdict("status-code", sigbase + f"/code-{getattr(res, 'name', res)}", where))
            mutating_success = True
        elif kind == "data":
            if bytes(res) != expect[1]:
                vs.append(verdict("read-back", sigbase + "/data-differs", f"{where}: got {bytes(res)!r} want {expect[1]!r}"))
        elif kind == "value":
            if res != expect[1] or type(res) is not type(expect[1]):
                vs.append(verdict("result", sigbase + "/value", f"{where}: got {res!r} want {expect[1]!r}"))
        elif kind == "none":
            mutating_success = True
        if mutating_success:
            succ += 1
        if vs:
            break
        actual = sim.tree_snapshot(root)
        if kind == "replace" and p != q:
            # survival of the source is not asserted: adopt what the implementation did for that path
            if q in actual and actual[q] == m.t.get(q):
                pass
            elif q not in actual:
                m.t.pop(q, None)
        if actual != m.snapshot():
            diff = {k: (actual.get(k), m.snapshot().get(k)) for k in set(actual) | set(m.t) if actual.get(k, "<absent>") != m.snapshot().get(k, "<absent>")}
            changed = "refused-op-changed-tree" if kind in ("raises", "undefined", "undefined_or_code") or (kind == "code" and not mutating_success) else "tree-differs"
            vs.append(verdict("tree-equals-model", sigbase + "/" + changed, f"{where}: (actual, model) {str(diff)[:400]}"))
            break
    nt = facts["refused_after_3"] or facts["write_beyond"]
    classes = [k for k, v in facts.items() if v]
    return Result(vs, nt, classes, {"trace": trace[:12], "ops": len(trace)})


def replay(case):
    return evaluate(case).verdicts


PARAMS = {"quick": 1500, "thorough": 40000}


def shard(ctx):
    out = Out()
    hyp_search(out, ctx["known"], case_strategy(), evaluate, PARAMS[ctx["tier"]], ctx["seed"])
    sim.cleanup_sandbox()
    from .. import fuzz

    fuzz.thorough_stage("C17", ctx, out)
    return out


def selftest(merged, tier):
    c = merged["classes"]
    for k in ("refused_after_3", "write_beyond", "undefined"):
        if c.get(k, 0) < 20:
            return f"class {k} nearly empty: {c.get(k, 0)}"
    return None
