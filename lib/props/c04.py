"""C04 - retry limits are honoured exactly; a silent peer cannot hang a transaction."""
from __future__ import annotations

import itertools

from hypothesis import strategies as st
from spacepackets.cfdp import ConditionCode
from spacepackets.cfdp.pdu import AckPdu, DirectiveType, EofPdu, FileDataPdu, MetadataParams, MetadataPdu, TransactionStatus
from spacepackets.cfdp.pdu.file_data import FileDataParams

from .. import models, sim
from .. import strategies as S
from ..core import Out, Result, enum_search, hyp_search, verdict

ID = "C04"
LEVEL = "fault_enumeration"
TECHNIQUE = (
    "complete enumeration of silence points (peer answers after j expiries or never) for the three timer-driven procedures on single handlers under a "
    "model-owned virtual clock (limits 1..5, just-before / at / after expiry, ties), checked call by call against a timeline model of the statement; "
    "plus two-entity runs in which one PDU kind of one direction is cut off from a generated occurrence on (bounded-idle oracle)"
)
LEVEL_TEXT = (
    "Part A drives one handler into each retry procedure (sender: EOF awaiting ACK; receiver: Finished awaiting ACK; receiver: deferred NAK "
    "sequence awaiting data) and then replays a timeline of {1 ms before expiry, expiry, idle call, ACK / missing segment arriving, arrival in "
    "the very call that notices an expiry}. A model computes for every call what must come out: one re-send per expiry, nothing in between, the "
    "limit fault exactly at the N-th consecutive expiry without progress, counter restart on progress, then (default handlers) the cancel PDU, "
    "the same procedure for the cancel exchange and abandonment at its limit, idle afterwards. Part B connects both handlers, silences one PDU "
    "kind from some occurrence on and requires both handlers idle within N_nak + 2*N_ack + 2 expiries and no PDU kind re-sent more than "
    "that many times, except in the two waits the documentation lists as unimplemented."
)
LEVEL_NOTE = (
    "Exhaustive over limits 1..4 (5 thorough) x silence point j in 0..N (peer answers after j expiries) x cancel-exchange outcome for each procedure "
    "on small files; larger limits, mixed timelines, intervals and ties sampled. An arrival in the call that notices an expiry may be handled before "
    "or after the expiry (both accepted). The clock is moved by the model (start of the awaited timer + interval), so a timer started at the wrong "
    "moment shows up as an early or missing expiry."
)
RULE = (
    "part A case = (procedure, limits, intervals, NAK mode, file/missing set) + timeline of ops; part B case = configuration + file + silence "
    "(PDU kind, first silenced occurrence) + optional extra faults. Non-trivial: a limit fault was due in the timeline or progress reset a running "
    "count (A); the silence took effect (B). Exhaustive cases are distinct by construction, sampled ones by case hash."
)
ASSUMPTIONS = [
    "default fault-handler table (both limit faults -> notice of cancellation)",
    "excluded, as in the statement: the sender waiting for the Finished PDU after its EOF was acknowledged, the receiver waiting for file data / EOF; "
    "the unacknowledged-mode check timers are C13's",
    "the cancel PDU (EOF (cancel) / Finished (cancel)) may be emitted by the call that declares the limit fault or by the next call",
]

PAL = int(ConditionCode.POSITIVE_ACK_LIMIT_REACHED)
NLR = int(ConditionCode.NAK_LIMIT_REACHED)
SEG = 4


# ------------------------------------------------------------------ part A: single handler timelines
class Model:
    """Timeline model of one retry procedure and what follows it under the default fault handlers."""

    def __init__(self, proc, cfg, now, side):
        self.cfg = cfg
        self.side = side  # "src" | "dst"
        self.start(proc, now)
        self.cancelled = False
        self.pending_cancel = None  # (kind, cond) still owed
        self.ended = False  # handler must be idle
        self.excluded = False  # entered one of the excluded waits: stop checking
        self.due = 0  # limit faults that became due
        self.resets = 0
        self.md_arrived = False

    def start(self, proc, now):
        self.proc = proc  # "EOF" | "FIN" | "NAK"
        self.c = 0
        self.t0 = now

    def interval(self):
        return self.cfg["nak_ms"] if self.proc == "NAK" else self.cfg["ack_ms"]

    def limit(self):
        return self.cfg["nak_limit"] if self.proc == "NAK" else self.cfg["ack_limit"]

    def expiry_time(self):
        return self.t0 + self.interval()

    # each returns a list of alternative expectations; an expectation is a dict
    def on_expiry(self, now):
        self.c += 1
        self.t0 = now
        if self.c < self.limit():
            return {"resend": self.proc}
        self.due += 1
        cond = NLR if self.proc == "NAK" else PAL
        if self.cancelled:
            self.ended = True
            return {"fault": cond, "abandon": True}
        self.cancelled = True
        kind = "EOF" if self.side == "src" else "FIN"
        self.pending_cancel = (kind, cond)
        self.start(kind, now)
        return {"fault": cond, "cancel": (kind, cond)}


def _fits(exp, ob, pending_before, was_idle):
    """exp: expectation for this call; ob: observation. Returns None or a message."""
    kinds = [k for k, _ in ob["out"]]
    faults = [f for f in ob["faults"] if f[1] in (PAL, NLR)]
    allowed_extra = []
    if pending_before is not None:
        # cancel PDU owed from the previous call
        if (pending_before[0], pending_before[1]) in [(k, c) for k, c in ob["out_cond"]]:
            allowed_extra.append(pending_before[0])
        else:
            return f"cancel PDU {pending_before} owed since the limit fault was not emitted"
    want_resend = exp.get("resend")
    if exp.get("nothing"):
        rest = list(kinds)
        for k in allowed_extra:
            if k in rest:
                rest.remove(k)
        if rest or faults:
            return f"nothing is due in this call but {rest or faults} came out"
        return None
    if want_resend:
        rest = list(kinds)
        for k in allowed_extra:
            if k in rest:
                rest.remove(k)
        if faults:
            return f"limit fault {faults} declared early (expiry below the limit)"
        if want_resend == "NAK":
            if not rest or any(k != "NAK" for k in rest):
                return f"expiry below the limit: a NAK sequence must be re-issued, got {rest}"
        elif rest != [want_resend]:
            return f"expiry below the limit: exactly one {want_resend} must be re-sent, got {rest}"
        return None
    if "fault" in exp:
        if exp.get("abandon"):
            # the cancel exchange timed out: abandonment; the statement does not say under which condition code
            # the user is told, only that it happens now
            if not ob["faults"]:
                return "limit reached during the cancel exchange: no fault-handler callback at all"
        elif len(faults) != 1 or faults[0][1] != exp["fault"]:
            return f"limit reached: exactly one fault callback with condition {exp['fault']} is due, got {ob['faults']}"
        rest = list(kinds)
        for k in allowed_extra:
            if k in rest:
                rest.remove(k)
        if exp.get("abandon"):
            if rest:
                return f"limit reached during the cancel exchange: the transaction must be abandoned silently, but {rest} came out"
            if not ob["idle"]:
                return "limit reached during the cancel exchange: handler not idle afterwards"
            return None
        ck, cc = exp["cancel"]
        got = [(k, c) for k, c in ob["out_cond"] if k == ck]
        if got and got != [(ck, cc)]:
            return f"cancel PDU must be one {ck} with condition {cc}, got {got}"
        others = [k for k in rest if k != ck]
        if others:
            return f"limit reached: only the cancel PDU may come out, got {rest}"
        return None
    return None


def run_partA(case):
    cfg = sim.norm_cfg(case["cfg"])
    proc = case["proc"]
    size = case["size"]
    content = bytes(((i * 7 + 3) % 255) + 1 for i in range(size))
    root = sim.fresh_dir("c04")
    vs = []
    trace = []
    side = "src" if proc == "EOF" else "dst"
    seq = 3
    if side == "src":
        (root / "src.bin").write_bytes(content)
        rig = sim.source_rig(cfg)
        from spacepackets.util import UnsignedByteField
        from cfdppy.request import PutRequest

        rig.h.put_request(PutRequest(UnsignedByteField(cfg["dst_id"][1], cfg["dst_id"][0]), root / "src.bin", root / "dst.bin", sim.MODES["ACK"], case.get("closure")))
        first = None
        for _ in range(size // SEG + 10):
            res = rig.call(None)
            if res.exc is not None:
                return Result([verdict("harness", f"C04/setup-exception/{type(res.exc).__name__}", repr(res.exc))], False, ["setup-failed"], {})
            for p in res.out:
                if sim.pdu_kind(p) == "EOF":
                    first = p
            if first is not None:
                break
        if first is None:
            return Result([verdict("harness", "C04/setup/no-eof", "")], False, ["setup-failed"], {})
        seq = first.transaction_seq_num.value
    else:
        rig = sim.dest_rig(cfg)
        conf = lambda: sim.pdu_conf_for(cfg, seq, "ACK")
        csum = models.ref_checksum(cfg["crc_type"], content)
        nseg = (size + SEG - 1) // SEG
        missing = set(case.get("missing") or []) if proc == "NAK" else set()
        md_pdu = lambda: MetadataPdu(conf(), MetadataParams(bool(case.get("closure")), sim.CSUMS[cfg["crc_type"]], size, "/s/src.bin", str(root / "d.bin")))
        if proc == "NAK" and case.get("md_missing"):
            # the Metadata PDU was lost: only the EOF arrives; everything has to be re-requested
            missing = set(range(nseg))
            pdus = []
        else:
            pdus = [md_pdu()]
            pdus += [FileDataPdu(conf(), FileDataParams(content[i * SEG : (i + 1) * SEG], i * SEG)) for i in range(nseg) if i not in missing]
        pdus += [EofPdu(conf(), csum, size)]
        want = "NAK" if proc == "NAK" else "FIN"
        seen = False
        for p in pdus + [None, None, None]:
            res = rig.call(p)
            if res.exc is not None:
                return Result([verdict("harness", f"C04/setup-exception/{type(res.exc).__name__}", repr(res.exc))], False, ["setup-failed"], {})
            if p is None or sim.pdu_kind(p) == "EOF":
                if any(sim.pdu_kind(q) == want for q in res.out):
                    seen = True
                    break
        if not seen:
            return Result([verdict("harness", f"C04/setup/no-{want}", "")], False, ["setup-failed"], {})
    h = rig.h
    m = Model(proc, cfg, sim.CLOCK.now, side)
    missing_left = set(case.get("missing") or []) if proc == "NAK" else set()
    md_pending = [bool(proc == "NAK" and case.get("md_missing"))]
    if md_pending[0]:
        missing_left = set(range((size + SEG - 1) // SEG))
    progress_reset = 0

    def ack_pdu():
        if side == "src":
            c = sim.pdu_conf_for(cfg, seq, "ACK", direction=sim.Direction.TOWARDS_SENDER)
            return AckPdu(c, DirectiveType.EOF_PDU, ConditionCode.NO_ERROR, TransactionStatus.ACTIVE)
        return AckPdu(sim.pdu_conf_for(cfg, seq, "ACK"), DirectiveType.FINISHED_PDU, ConditionCode.NO_ERROR, TransactionStatus.ACTIVE)

    def fd_pdu(i):
        return FileDataPdu(sim.pdu_conf_for(cfg, seq, "ACK"), FileDataParams(content[i * SEG : (i + 1) * SEG], i * SEG))

    for idx, op in enumerate(case["timeline"] + ["idle"]):
        if m.excluded:
            break
        kind = op if isinstance(op, str) else op[0]
        pdu = None
        alts = []
        pending_before = m.pending_cancel
        m.pending_cancel = None
        was_ended = m.ended
        if kind in ("tick", "tickack", "tickfd", "tickmd"):
            extra = op[-1] if not isinstance(op, str) else 0
            if not m.ended:
                sim.CLOCK.now = max(sim.CLOCK.now, m.expiry_time() + extra)
        elif kind == "almost":
            if not m.ended and m.expiry_time() - 1 > sim.CLOCK.now:
                sim.CLOCK.now = m.expiry_time() - 1
        now = sim.CLOCK.now
        expired = (not m.ended) and now >= m.expiry_time()
        # ---- what the model expects from this call
        if m.ended:
            alts = [{"nothing": True}]
            if kind in ("ack", "tickack"):
                pdu = None  # nothing to deliver to an idle handler
            snapshot = None
        else:
            arrival = None
            if kind in ("ack", "tickack") and m.proc in ("EOF", "FIN"):
                arrival = "ack"
                pdu = ack_pdu()
            elif kind in ("md", "tickmd") and m.proc == "NAK" and md_pending[0]:
                arrival = "md"
                pdu = md_pdu()
            elif kind in ("fd", "tickfd") and m.proc == "NAK" and op[1] in missing_left and not md_pending[0]:
                arrival = ("fd", op[1])
                pdu = fd_pdu(op[1])
            import copy as _copy

            def apply_arrival(mm, ml):
                if arrival == "ack":
                    if mm.side == "src":
                        mm.excluded = True  # now waiting for the Finished PDU: excluded wait
                        return {"nothing": True, "excluded": True}
                    mm.ended = True
                    return {"nothing": True, "idle": True}
                if arrival == "md":
                    mm.md_arrived = True
                else:
                    ml.discard(arrival[1])
                mm.resets += 1
                if not ml:
                    mm.start("FIN", now)
                    return {"complete": True}
                mm.c = 0
                mm.t0 = now
                return {"nothing": True}

            if arrival is None:
                alts = [(m.on_expiry(now) if expired else {"nothing": True})]
                branches = None
            elif not expired:
                alts = [apply_arrival(m, missing_left)]
                branches = None
            else:
                # tie: arrival handled before the expiry (expiry then sees the new state) or the expiry first
                m1, l1 = _copy.deepcopy(m), set(missing_left)
                e1 = apply_arrival(m1, l1)
                m2, l2 = _copy.deepcopy(m), set(missing_left)
                e2 = m2.on_expiry(now)
                if not m2.ended:
                    e2b = apply_arrival(m2, l2)
                    e2 = dict(e2)
                    if e2b.get("complete"):
                        e2["then_complete"] = True
                branches = [(e1, m1, l1), (e2, m2, l2)]
                alts = [e1, e2]
        res = rig.call(pdu)
        ob = {
            "out": [(sim.pdu_kind(p), None) for p in res.out],
            "out_cond": [(sim.pdu_kind(p), int(p.condition_code) if sim.pdu_kind(p) in ("EOF", "FIN") else None) for p in res.out],
            "faults": [(f[2], f[4]) for f in res.faults],
            "idle": h.states.state.name == "IDLE",
        }
        trace.append([kind if isinstance(op, str) else list(op), sim.CLOCK.now - 1_000_000, [k for k, _ in ob["out"]], ob["faults"], h.step.name])
        if res.exc is not None:
            if not res.lib:
                vs.append(verdict("no-internal-error", f"C04/{proc}/internal-error/{type(res.exc).__name__}", sim._where(res.exc)))
                break
            if pdu is None:
                vs.append(verdict("no-internal-error", f"C04/{proc}/exception-on-timer-call/{type(res.exc).__name__}", repr(res.exc)))
                break
        msgs = []
        chosen = None
        for bi, exp in enumerate(alts):
            if exp.get("complete") or exp.get("then_complete"):
                # data complete: the Finished PDU is due now or on the next call; handled leniently: only faults are forbidden here
                bad = [f for f in ob["faults"] if f[1] in (PAL, NLR)]
                msg = None
                if exp.get("then_complete"):
                    msg = _fits({k: v for k, v in exp.items() if k != "then_complete"}, {**ob, "out": [(k, c) for k, c in ob["out"] if k != "FIN"], "out_cond": [(k, c) for k, c in ob["out_cond"] if not (k == "FIN" and c == 0)]}, pending_before, was_ended)
                elif bad:
                    msg = f"limit fault {bad} although the missing data arrived"
            else:
                msg = _fits(exp, ob, pending_before, was_ended)
                if msg is None and exp.get("idle") and not ob["idle"]:
                    msg = "awaited ACK delivered but the handler is not idle"
            if msg is None:
                chosen = bi
                break
            msgs.append(msg)
        if chosen is None:
            tag = "tie" if len(alts) > 1 else ("expiry" if expired else "no-expiry")
            what = "early" if any("early" in x or "nothing is due" in x for x in msgs) else "wrong"
            vs.append(verdict("retry-timeline", f"C04/{proc}/{m.proc}/{tag}/{what}", f"op {idx} {op} (expiry count {m.c} of limit {m.limit()}): {msgs[0]}"))
            break
        if not m.ended and 'branches' in dir() and branches is not None:
            _, m, missing_left = branches[chosen]
        if getattr(m, "md_arrived", False):
            md_pending[0] = False
        exp = alts[chosen]
        if exp.get("cancel"):
            ck, cc = exp["cancel"]
            if (ck, cc) in ob["out_cond"]:
                m.pending_cancel = None
            m.t0 = sim.CLOCK.now
        if exp.get("complete") or exp.get("then_complete"):
            # wait for the Finished PDU to appear (at most 2 idle calls), then the FIN procedure runs from there
            fin = any(k == "FIN" for k, _ in ob["out"])
            for _ in range(2):
                if fin:
                    break
                r2 = rig.call(None)
                fin = any(sim.pdu_kind(p) == "FIN" for p in r2.out)
            if not fin:
                vs.append(verdict("retry-timeline", f"C04/{proc}/no-finished-after-data-complete", f"op {idx}"))
                break
            m.start("FIN", sim.CLOCK.now)
        if m.ended and not ob["idle"] and not was_ended:
            vs.append(verdict("idle-after-end", f"C04/{proc}/not-idle-after-end/{h.step.name}", f"op {idx} {op}"))
            break
    classes = [f"proc:{proc}", f"N:{cfg['nak_limit'] if proc == 'NAK' else cfg['ack_limit']}"]
    if m.due:
        classes.append("limit-due")
    if m.due >= 2 or (m.ended and m.cancelled):
        classes.append("abandoned-after-cancel")
    if m.resets:
        classes.append("progress-reset")
    if case.get("md_missing"):
        classes.append("metadata-missing")
    if any((not isinstance(o, str)) and o[0] in ("tickack", "tickfd", "tickmd") for o in case["timeline"]):
        classes.append("tie")
    if m.excluded:
        classes.append("entered-excluded-wait")
    nt = bool(m.due or m.resets)
    return Result(vs, nt, classes, {"trace": trace[:40]})


# ------------------------------------------------------------------ part B: two entities, one direction silenced
def run_partB(case):
    cfg = sim.norm_cfg(case["cfg"])
    s = sim.Sim(case)
    try:
        na, nn = cfg["ack_limit"], cfg["nak_limit"]
        bound = nn + 2 * na + 2
        s.run(max_steps=20000, max_ticks=3 * bound + 10)
        vs = []
        applied = [a for a in s.link.applied]
        silenced = any(e[0] == "link" and e[1] == "drop" for e in s.tlog)
        src_step, dst_step = s.src.h.step.name, s.dst.h.step.name
        # ticks after the silence began
        first = next((i for i, e in enumerate(s.tlog) if e[0] == "link"), None)
        ticks_after = sum(1 for e in s.tlog[first:] if e[0] == "tick") if first is not None else 0
        excluded = []
        if not s.src.idle() and src_step == "WAITING_FOR_FINISHED":
            excluded.append("src-awaiting-finished")
        if not s.dst.idle() and dst_step in ("RECEIVING_FILE_DATA", "WAITING_FOR_METADATA") and not s.dst.h.deferred_lost_segment_procedure_active:
            excluded.append("dst-awaiting-data-or-eof")
        internal = s.excs(library=False)
        tag = f"{case['silence'][0]}"
        if internal:
            e = internal[0]
            vs.append(verdict("no-internal-error", f"C04/B/internal-error/{e[1]}/{e[3]}@{e[5].split(':')[0]}", e[5]))
        else:
            for side, ent in (("src", s.src), ("dst", s.dst)):
                if ent.idle():
                    continue
                if side == "src" and "src-awaiting-finished" in excluded:
                    continue
                if side == "dst" and "dst-awaiting-data-or-eof" in excluded:
                    continue
                vs.append(verdict("bounded-idle", f"C04/B/not-idle/{side}/{ent.h.step.name}", f"silence {case['silence']}: {side} still in {ent.h.step.name} after {s.ticks} expiries (bound {bound}); outcome {s.outcome}"))
            counts = {}
            for side in ("src", "dst"):
                for p in s.emitted(side):
                    k = sim.pdu_kind(p)
                    counts[k] = counts.get(k, 0) + 1
            for k in ("EOF", "FIN"):
                if counts.get(k, 0) > 2 * na + 2:
                    vs.append(verdict("bounded-resend", f"C04/B/resent-too-often/{k}", f"{counts[k]} {k} PDUs with ACK limit {na}"))
        classes = ["partB", f"silence:{tag}", "silenced" if silenced else "silence-not-reached"] + [f"excluded:{x}" for x in excluded]
        if s.faults():
            classes.append("limit-fault-seen")
        summ = sim.summarize(s)
        return Result(vs, silenced, classes, summ)
    finally:
        s.close()


def evaluate(case):
    pol = sim.fault_table_isolation_probe()
    if pol is not None:
        # "with the default fault handlers": a fault handler object nobody configured must carry the documented defaults
        return Result([verdict("default-fault-handlers", "C04/fault-handler-table-shared-between-instances", pol)], True, ["table-shared"], {})
    if case.get("part") == "B":
        return run_partB(case)
    return run_partA(case)


def replay(case):
    return evaluate(case).verdicts


# ------------------------------------------------------------------ generation
def _cfgA(na, nn, immediate=True, ack_ms=1000, nak_ms=700):
    return {"mode": "ACK", "ack_limit": na, "nak_limit": nn, "ack_ms": ack_ms, "nak_ms": nak_ms, "immediate_nak": immediate, "max_seg": SEG, "max_pkt": 64, "crc_type": "CRC_32"}


def exhaustive_cases(shard, nshards, tier):
    idx = 0
    maxN = 4 if tier == "quick" else 5
    for proc in ("EOF", "FIN", "NAK"):
        for N, N2 in itertools.product(range(1, maxN + 1), range(1, 4)):
            # N: limit of the procedure under test; N2: the other limit (decides the cancel exchange after a NAK limit)
            cfg = _cfgA(N, N2) if proc != "NAK" else _cfgA(N2, N)
            for imm in ((True, False) if proc == "NAK" else (True,)):
                cfg = dict(cfg, immediate_nak=imm)
                total = N + (N2 if proc == "NAK" else N) + 2
                for j in range(0, N + 1):  # peer answers after j expiries (j == N: never)
                    for style in ("plain", "almost", "idle", "late"):
                        for tie in ((False, True) if j < N else (False,)):
                            idx += 1
                            if idx % nshards != shard:
                                continue
                            tl = []
                            for e in range(total):
                                if e == j and j < N:
                                    arrive = ["ack"] if proc != "NAK" else ["fd", 1]
                                    if tie:
                                        tl.append(["tickack", 0] if proc != "NAK" else ["tickfd", 1, 0])
                                        continue
                                    tl.append(arrive)
                                if style == "almost":
                                    tl.append("almost")
                                if style == "idle":
                                    tl.append("idle")
                                tl.append(["tick", 0 if style != "late" else 350])
                            case = {"part": "A", "proc": proc, "cfg": cfg, "size": 3 * SEG, "timeline": tl}
                            if proc == "NAK":
                                case["missing"] = [1, 2] if j < N else [1]
                            yield case
                            if proc == "NAK" and style == "plain" and not tie:
                                # several disjoint gaps and a packet length that fits one segment request per NAK PDU: every
                                # NAK sequence consists of several PDUs (one expiry is still one expiry)
                                cfgs = dict(cfg, max_pkt=models.nak_len(2, 2, False, 1))
                                tl3 = [(["fd", 2] if o == ["fd", 1] else o) for o in tl]
                                yield {"part": "A", "proc": proc, "cfg": cfgs, "size": 6 * SEG, "timeline": tl3, "missing": [0, 2, 4]}
                            if proc == "NAK":
                                # same silence point, but the progress is the lost Metadata PDU arriving
                                tl2 = [(["md"] if o == ["fd", 1] else (["tickmd", 0] if o == ["tickfd", 1, 0] else o)) for o in tl]
                                yield {"part": "A", "proc": proc, "cfg": cfg, "size": 3 * SEG, "timeline": tl2, "md_missing": True}
    # part B: every PDU kind silenced from its k-th occurrence on
    silences = [[k, o, "dropall"] for k in ("FD", "EOF", "ACK_EOF", "NAK", "FIN", "ACK_FIN") for o in (0, 1, 2)]
    silences += [["TO_DST", k, "cut"] for k in range(0, 8)] + [["TO_SRC", k, "cut"] for k in range(0, 5)]
    for sil, na, nn, closure, size, imm in itertools.product(silences, [1, 2, 3], [1, 2], [False, True], [0, 2 * SEG + 1], [True, False]):
        idx += 1
        if idx % nshards != shard:
            continue
        cfg = dict(_cfgA(na, nn, imm), closure=closure)
        yield {"part": "B", "cfg": cfg, "file": {"pat": b"\x31\x32\x33", "size": size}, "silence": sil[:2], "faults": [[sil[0], sil[1], sil[2], 0]]}


@st.composite
def sampled_case(draw):
    if draw(st.integers(0, 2)) == 0:
        cfg = draw(S.cfgs(modes=("ACK",), vary_limits=True, max_limit=4, request_overrides=False))
        f = draw(S.file_specs(cfg, max_bytes=600, max_segments=10))
        kind = draw(st.sampled_from(["FD", "EOF", "ACK_EOF", "NAK", "FIN", "ACK_FIN", "TO_DST", "TO_DST", "TO_SRC", "TO_SRC"]))
        occ = draw(st.integers(0, 4)) if not kind.startswith("TO_") else draw(st.integers(0, 14))
        faults = [[kind, occ, "cut" if kind.startswith("TO_") else "dropall", 0]] + draw(S.fault_schedules(max_faults=2, actions=("drop", "dup", "delay")))
        case = {"part": "B", "cfg": cfg, "file": f, "silence": [kind, occ], "faults": faults}
        if draw(st.booleans()):
            case["extra_polls"] = [draw(st.integers(0, 3)), draw(st.integers(0, 3))]
        if draw(st.integers(0, 3)) == 0:
            case["tick_mode"] = "exact"
        return case
    proc = draw(st.sampled_from(["EOF", "FIN", "NAK", "NAK"]))
    na, nn = draw(st.integers(1, 6)), draw(st.integers(1, 6))
    cfg = _cfgA(na, nn, draw(st.booleans()), draw(st.sampled_from([2, 3, 1000, 4999])), draw(st.sampled_from([2, 5, 700])))
    cfg["crc_type"] = draw(st.sampled_from(["CRC_32", "NULL_CHECKSUM", "MODULAR"]))
    nseg = draw(st.integers(2, 6))
    case = {"part": "A", "proc": proc, "cfg": cfg, "size": nseg * SEG - draw(st.integers(0, SEG - 1)), "closure": draw(st.booleans())}
    if proc == "NAK" and draw(st.integers(0, 2)) == 0:
        cfg["max_pkt"] = models.nak_len(2, 2, False, draw(st.integers(1, 2)))
    if proc == "NAK":
        case["missing"] = sorted(draw(st.lists(st.integers(0, nseg - 1), min_size=1, max_size=nseg, unique=True)))
        if draw(st.integers(0, 2)) == 0:
            case["md_missing"] = True
    arr = st.one_of(
        st.just(["ack"]), st.tuples(st.just("tickack"), st.integers(0, 3)).map(list),
        st.tuples(st.just("fd"), st.integers(0, nseg - 1)).map(list),
        st.tuples(st.just("tickfd"), st.integers(0, nseg - 1), st.integers(0, 3)).map(list),
        st.just(["md"]), st.tuples(st.just("tickmd"), st.integers(0, 3)).map(list),
    )
    tick = st.tuples(st.just("tick"), st.sampled_from([0, 0, 1, 1, 300, 5000])).map(list)
    op = st.one_of(tick, tick, tick, tick, st.just("almost"), st.just("idle"), arr)
    case["timeline"] = draw(st.lists(op, min_size=1, max_size=3 * max(na, nn) + 6))
    return case


PARAMS = {"quick": 1200, "thorough": 20000}


def shard(ctx):
    models.selfcheck()
    out = Out()
    enum_search(out, ctx["known"], exhaustive_cases(ctx["shard"], ctx["nshards"], ctx["tier"]), evaluate, stop_after=12)
    out.extra["exhaustive_cases"] = out.evaluations
    out.extra["exhaustive_part"] = "A: 3 procedures x limit 1..4 (5 thorough) x other limit 1..3 x answer after j in 0..N expiries (N = never) x {plain, 1 ms early call, idle call, late call} x tie; B: {6 PDU kinds silenced from occurrence 0..2 on, direction towards the receiver cut after 0..7 PDUs, towards the sender after 0..4} x ACK limit 1..3 x NAK limit 1..2 x closure x 2 sizes x NAK mode"
    out.exhaustive = False
    hyp_search(out, ctx["known"], sampled_case(), evaluate, PARAMS[ctx["tier"]], ctx["seed"])
    sim.cleanup_sandbox()
    return out


def selftest(merged, tier):
    c = merged["classes"]
    for k in ("proc:EOF", "proc:FIN", "proc:NAK", "limit-due", "abandoned-after-cancel", "progress-reset", "tie", "partB", "silenced", "limit-fault-seen", "N:1", "N:4"):
        if c.get(k, 0) < 5:
            return f"class {k} nearly empty: {c.get(k, 0)}"
    return None
