"""C08 - retransmissions deliver exactly the requested data and nothing else."""
from __future__ import annotations

import copy

from hypothesis import strategies as st
from spacepackets.cfdp import ConditionCode
from spacepackets.cfdp.pdu import AckPdu, DirectiveType, FinishedPdu, NakPdu, TransactionStatus
from spacepackets.cfdp.pdu.finished import DeliveryCode, FileStatus, FinishedParams

from .. import models, sim
from .. import strategies as S
from ..core import Out, Result, hyp_search, verdict

ID = "C08"
LEVEL = "exploration"
TECHNIQUE = "Hypothesis-generated NAK/ACK/Finished/idle-call histories on one acknowledged-mode SourceHandler; emitted PDUs compared with a tiling model of the requests"
LEVEL_TEXT = (
    "NAK PDUs with 0..4 requests whose bounds sit on 0, grid points, progress-1/progress/progress+1, file size and beyond (incl. empty and "
    "inverted ranges and the metadata request) are inserted at every step of a lone acknowledged-mode SourceHandler, interleaved with further "
    "calls; the PDUs of the accepting call must tile exactly the valid requests, invalid NAKs must be refused, and the original stream must "
    "still tile the file once with an unchanged EOF."
)
LEVEL_NOTE = "Sampled histories. Request ends are capped at size + 2 segments (an uncapped end made the pinned code loop for gigabytes; that finding is demonstrated with a small overshoot)."
RULE = (
    "case = configuration (acknowledged mode) + file + <= 30 steps from {idle call, NAK(requests from anchored bounds), ACK(EOF), Finished}. "
    "Non-trivial: a NAK serviced while original file data was still outstanding, or a serviced NAK with >= 2 requests. Distinct = distinct case."
)
ASSUMPTIONS = [
    "a request is valid iff it is (0,0) or start <= end <= bytes sent so far; an invalid request makes the call raise InvalidNakPdu; "
    "requests of the same NAK that precede the invalid one may or may not have been serviced",
    "a NAK must be serviced in the steps sending-file-data, awaiting-EOF-ACK and awaiting-Finished; in other steps it may be ignored",
    "the call that services a NAK may first emit the (original) EOF PDU when the last file data PDU had just been sent",
]


def anchor():
    return st.one_of(
        st.tuples(st.just("zero"), st.just(0)),
        st.tuples(st.just("grid"), st.integers(0, 12)),
        st.tuples(st.just("prog"), st.integers(-1, 1)),
        st.tuples(st.just("prog"), st.just(0)),
        st.tuples(st.just("size"), st.integers(-1, 16)),
        st.tuples(st.just("abs"), st.integers(0, 40)),
    ).map(list)


def request():
    return st.one_of(st.just("md"), st.tuples(anchor(), anchor()).map(list), st.tuples(anchor(), anchor()).map(list), st.tuples(anchor(), anchor(), st.just("sorted")).map(list))


def step():
    nak = st.tuples(st.just("nak"), st.lists(request(), min_size=0, max_size=4)).map(list)
    # "clk": the clock passes the next pending expiry without a call, so that the next PDU (a NAK, say) arrives in the very
    # call that notices the expiry
    return st.one_of(st.just(["adv"]), st.just(["adv"]), nak, nak, st.just(["ack_eof"]), st.just(["fin"]), st.just(["clk"]))


@st.composite
def case_strategy(draw):
    cfg = draw(S.cfgs(modes=("ACK",), transports=("obj",), csums=("CRC_32", "CRC_32C", "MODULAR", "NULL_CHECKSUM")))
    cfg["max_seg"] = draw(st.sampled_from([1, 2, 3, 5, 8]))
    f = draw(S.file_specs(cfg, max_bytes=96, max_segments=12))
    if draw(st.booleans()):
        # structured shape: NAKs placed at chosen call indices (every index from the first call to the calls after the EOF
        # equally likely, so that 'the call that emits the EOF' and 'right after a refused NAK' are hit often), half of them
        # with an invalid request
        eff0 = S.eff_seg_len(cfg)
        nseg = (f["size"] + eff0 - 1) // eff0
        nak = st.tuples(st.just("nak"), st.lists(request(), min_size=1, max_size=3)).map(list)
        bad = st.tuples(st.just("nak"), st.lists(st.one_of(request(), st.just([["prog", 1], ["size", 3]]), st.just([["grid", 1], ["zero", 0]])), min_size=1, max_size=2)).map(list)
        steps = []
        for _ in range(draw(st.integers(1, 3))):
            steps += [["adv"]] * draw(st.integers(0, nseg + 3))
            steps.append(draw(st.one_of(nak, bad)))
            if draw(st.integers(0, 4)) == 0:
                steps.append(draw(st.sampled_from([["ack_eof"], ["clk"], ["fin"]])))
        case = {"cfg": cfg, "file": f, "steps": steps}
    else:
        case = {"cfg": cfg, "file": f, "steps": draw(st.lists(step(), min_size=1, max_size=30))}
    if draw(st.integers(0, 2)) == 0:
        # optional TLVs of the put request travel in the Metadata PDU; a (0,0) request must bring back the same PDU
        case["opts"] = draw(S.request_options())
        case["msgs"] = draw(st.lists(S.user_messages(), max_size=2))
    return case


def _resolve(a, eff, progress, size):
    name, k = a
    if name == "zero":
        return 0
    if name == "grid":
        return k * eff
    if name == "prog":
        return max(0, progress + k)
    if name == "size":
        return max(0, size + min(k, 2 * eff))
    return k


def evaluate(case):
    cfg = sim.norm_cfg(case["cfg"])
    s = sim.Sim(case)
    try:
        return _evaluate(case, cfg, s)
    finally:
        s.close()


def _evaluate(case, cfg, s):
    from cfdppy.exceptions import InvalidNakPdu
    from cfdppy.handler.source import TransactionStep as T

    content = s.content
    size = len(content)
    eff = S.eff_seg_len(cfg)
    h = s.src.h
    rig = sim.Rig(h, s.log)
    h.put_request(s.make_put_request())
    vs = []
    originals = []  # (offset, data) of File Data PDUs emitted by non-NAK calls
    eofs = []
    md_raw = None
    facts = {"serviced": 0, "serviced_outstanding": 0, "serviced_multi": 0, "refused": 0, "ignored": 0, "partial_then_refused": 0, "md_rerequested": 0, "at_wait_eof_ack": 0, "at_wait_fin": 0, "internal_error": 0}
    nt = False
    sent_end = 0
    trace = []
    tie = False
    self_cancelled = False
    steps = [list(x) for x in case["steps"]] + [["adv"]] * (size // eff + 6)
    tail_from = len(case["steps"])
    for idx, stp in enumerate(steps):
        if rig.dead is not None or h.state.name == "IDLE":
            break
        kind = stp[0]
        if idx >= tail_from and eofs:
            break
        if kind == "clk":
            if rig.tick():
                tie = True
                facts["tie"] = facts.get("tie", 0) + 1
            continue
        step_before = h.step
        progress = h.progress
        pdu = None
        expected = None
        invalid_at = None
        reqs = []
        if kind == "nak":
            for r in stp[1]:
                if r == "md":
                    reqs.append((0, 0))
                else:
                    a = _resolve(r[0], eff, progress, size)
                    b = _resolve(r[1], eff, progress, size)
                    if len(r) > 2 and a > b:
                        a, b = b, a
                    reqs.append((a, min(b, size + 2 * eff)))
            conf = sim.pdu_conf_for(cfg, cfg['seq_start'])
            pdu = NakPdu(conf, 0, max([r[1] for r in reqs] + [0]), list(reqs))
            expected = []
            for i, (a, b) in enumerate(reqs):
                if (a, b) == (0, 0):
                    expected.append(("MD",))
                elif b < a or b > progress or a > progress:
                    invalid_at = i
                    break
                else:
                    pos = a
                    while pos < b:
                        ln = min(eff, b - pos)
                        expected.append(("FD", pos, content[pos : pos + ln]))
                        pos += ln
        elif kind == "ack_eof":
            pdu = AckPdu(sim.pdu_conf_for(cfg, cfg['seq_start']), DirectiveType.EOF_PDU, ConditionCode.NO_ERROR, TransactionStatus.ACTIVE)
        elif kind == "fin":
            pdu = FinishedPdu(sim.pdu_conf_for(cfg, cfg['seq_start']), FinishedParams(ConditionCode.NO_ERROR, DeliveryCode.DATA_COMPLETE, FileStatus.FILE_RETAINED))
        res = rig.call(pdu)
        tie_now, tie = tie, False
        trace.append([kind, reqs if kind == "nak" else None, step_before.name, None if res.exc is None else type(res.exc).__name__, [sim.pdu_kind(p) + (f"@{p.offset}+{len(p.file_data)}" if sim.pdu_kind(p) == "FD" else "") for p in res.out][:8]])
        if res.exc is not None and not res.lib:
            facts["internal_error"] += 1
            break
        got = []
        for p in res.out:
            k = sim.pdu_kind(p)
            if k == "FD":
                got.append(("FD", p.offset, bytes(p.file_data)))
                if len(p.file_data) == 0:
                    vs.append(verdict("no-data-outside-file", "C08/empty-file-data-pdu", f"step {idx} {kind} {reqs}: offset {p.offset}"))
                elif p.offset + len(p.file_data) > size:
                    vs.append(verdict("no-data-outside-file", "C08/data-beyond-file", f"step {idx} {kind} {reqs}: {p.offset}+{len(p.file_data)} size {size}"))
            elif k == "MD":
                raw = bytes(p.pack())
                if md_raw is None:
                    md_raw = raw
                    got.append(("MD0",))
                else:
                    got.append(("MD",) if raw == md_raw else ("MD-different",))
            elif k == "EOF":
                got.append(("EOF",))
                eofs.append(p)
                if int(p.condition_code) != 0:
                    self_cancelled = True
            else:
                got.append((k,))
        if vs or self_cancelled:
            break
        if kind == "nak":
            must = step_before in (T.SENDING_FILE_DATA, T.WAITING_FOR_EOF_ACK, T.WAITING_FOR_FINISHED)
            body = list(got)
            if body and body[0] == ("MD0",):
                body = body[1:]  # the original Metadata PDU (first call of the transaction)
            if body and body[0] == ("EOF",) and len(eofs) == 1:
                body = body[1:]  # original EOF emitted on the way
            if tie_now:
                # the call also noticed a timer expiry: a re-sent EOF next to the retransmission is not held against it
                body = [x for x in body if x != ("EOF",)]
            body_is_retx = all(x[0] in ("FD", "MD") for x in body)
            if isinstance(res.exc, InvalidNakPdu):
                facts["refused"] += 1
                if invalid_at is None:
                    vs.append(verdict("valid-nak-serviced", "C08/valid-nak-refused", f"step {idx}: reqs {reqs} progress {progress}: {res.exc!r}"))
                else:
                    if body and body != expected:
                        vs.append(verdict("exactly-requested", "C08/refused-nak-emitted-other-data", f"step {idx}: reqs {reqs} progress {progress}: got {_short(body)} want prefix {_short(expected)}"))
                    elif body:
                        facts["partial_then_refused"] += 1
            elif res.exc is not None:
                pass  # other library refusal (admission): nothing must have been emitted
                if body:
                    vs.append(verdict("exactly-requested", "C08/refused-pdu-emitted-data", f"step {idx}: {res.exc!r} but emitted {_short(body)}"))
            else:
                if invalid_at is not None:
                    if must or body:
                        why = "inverted" if reqs[invalid_at][1] < reqs[invalid_at][0] else ("beyond-file" if reqs[invalid_at][1] > size else "beyond-progress")
                        vs.append(verdict("invalid-nak-refused", f"C08/invalid-request-not-refused/{why}", f"step {idx} at {step_before.name}: reqs {reqs} progress {progress} size {size}: emitted {_short(body)}"))
                    else:
                        facts["ignored"] += 1
                elif not body and expected and not must:
                    facts["ignored"] += 1
                elif body != expected or not body_is_retx:
                    vs.append(verdict("exactly-requested", "C08/retransmission-differs", f"step {idx} at {step_before.name}: reqs {reqs} progress {progress}: got {_short(body)} want {_short(expected)}"))
                else:
                    if expected:
                        facts["serviced"] += 1
                        if progress < size:
                            facts["serviced_outstanding"] += 1
                            nt = True
                        if len([r for r in reqs]) >= 2:
                            facts["serviced_multi"] += 1
                            nt = True
                        if ("MD",) in expected:
                            facts["md_rerequested"] += 1
                        if step_before == T.WAITING_FOR_EOF_ACK:
                            facts["at_wait_eof_ack"] += 1
                        if step_before == T.WAITING_FOR_FINISHED:
                            facts["at_wait_fin"] += 1
        else:
            for x in got:
                if x[0] == "FD":
                    originals.append((x[1], x[2]))
                elif x[0] in ("MD", "MD-different"):
                    vs.append(verdict("nothing-else", "C08/unrequested-metadata", f"step {idx} {kind}"))
        if vs:
            break
    if not vs and rig.dead is None:
        # resume: originals tile the file exactly once, ascending; EOF unchanged
        pos = 0
        for off, data in originals:
            if off != pos:
                vs.append(verdict("resumes-exactly", "C08/original-stream-skips-or-repeats", f"original FD at {off}, expected {pos}; originals {[(o, len(d)) for o, d in originals][:12]}"))
                break
            if data != content[pos : pos + len(data)]:
                vs.append(verdict("resumes-exactly", "C08/original-content-differs", f"at {off}"))
                break
            pos += len(data)
        else:
            if eofs and pos != size:
                vs.append(verdict("resumes-exactly", "C08/original-stream-incomplete-at-eof", f"covered {pos} of {size}"))
        if not eofs and not vs and rig.dead is None and h.state.name != "IDLE" and pos == size and not facts.get("tie"):
            # every original File Data PDU went out and plenty of further calls were made, but the EOF never appeared
            vs.append(verdict("eof-unchanged", f"C08/eof-never-emitted/{h.step.name}", f"all {size} bytes sent, handler in {h.step.name}, no EOF PDU was handed out"))
        want = models.ref_checksum(cfg["crc_type"], content)
        for e in eofs:
            if int(e.condition_code) != 0 and facts.get("tie"):
                # the clock was moved in this history: a positive ACK limit may have been reached, the EOF (cancel) that
                # follows is the sender's own cancellation, not a changed EOF (C04 / C12 territory)
                break
            if int(e.condition_code) != 0 or e.file_size != size or bytes(e.file_checksum) != want:
                vs.append(verdict("eof-unchanged", "C08/eof-changed", f"cond {e.condition_code} size {e.file_size} checksum {bytes(e.file_checksum).hex()} want {size}/{want.hex()}"))
                break
    classes = [k for k, v in facts.items() if v]
    return Result(vs, nt, classes, {"trace": trace[:24], "size": size, "eff": eff})


def _short(lst):
    return [(x[0], x[1], len(x[2])) if x[0] == "FD" else x for x in (lst or [])][:10]


def replay(case):
    return evaluate(case).verdicts


PARAMS = {"quick": 800, "thorough": 25000}


def shard(ctx):
    out = Out()
    hyp_search(out, ctx["known"], case_strategy(), evaluate, PARAMS[ctx["tier"]], ctx["seed"])
    sim.cleanup_sandbox()
    from .. import fuzz

    fuzz.thorough_stage("C08", ctx, out)
    return out


def selftest(merged, tier):
    c = merged["classes"]
    for k in ("serviced", "serviced_outstanding", "serviced_multi", "refused", "md_rerequested", "at_wait_eof_ack", "at_wait_fin"):
        if c.get(k, 0) < 20:
            return f"class {k} nearly empty: {c.get(k, 0)}"
    return None
