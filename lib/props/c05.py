"""C05 - destination file equals the write-model of the accepted File Data PDUs."""
from __future__ import annotations

import os
import shutil

from hypothesis import strategies as st
from spacepackets.cfdp import ConditionCode
from spacepackets.cfdp.pdu import AckPdu, DirectiveType, EofPdu, FileDataPdu, MetadataParams, MetadataPdu, TransactionStatus
from spacepackets.cfdp.pdu.file_data import FileDataParams

from .. import models, sim
from ..core import Out, Result, hyp_search, verdict

ID = "C05"
LEVEL = "exploration"
TECHNIQUE = "Hypothesis-generated PDU/timer/cancel histories on one DestHandler; file-write reference model and full sandbox-tree snapshot after every call"
LEVEL_TEXT = (
    "Histories of Metadata / File Data (arbitrary offsets, overlaps, duplicates, beyond-EOF, before the Metadata) / EOF (right or wrong "
    "checksum, cancel) / ACK PDUs, timer expiries and cancel requests over several consecutive transactions on one DestHandler in a "
    "sandbox with decoy files; after every call the whole sandbox tree must equal the initial tree plus the write-model of the accepted "
    "segments at the resolved destination path."
)
LEVEL_NOTE = (
    "Sampled histories (<= 60 steps). 'Accepted' is read off the File-Segment-Recv indication (all indications enabled). A history ends "
    "when a call leaks a non-library exception (that is C10's subject, counted here)."
)
RULE = (
    "history = handler configuration + <= 60 steps from {metadata(dest name, source name, size, checksum type, closure), file_data(offset, "
    "length), eof(right/wrong checksum, size, condition), ack_finished, tick, cancel, idle call}; a new transaction id is used after the "
    "handler returned to idle. Non-trivial: a transaction with >= 2 accepted segments of which one overlaps, is out of order or arrived "
    "before the Metadata. Distinct = distinct history."
)
ASSUMPTIONS = [
    "offset + length < 2^20 (the harness reads files back; the code has no limit)",
    "the destination may be absent only after a Transaction-Finished indication reporting 'discarded deliberately' with "
    "disposition-on-cancellation configured (whether that deletion is right is C12's subject)",
    "all PDUs of a transaction carry that transaction's id (routing by id is the surrounding entity's duty)",
]

DESTS = ["dst.bin", "sub", "sub/new.bin", "decoy1.bin", "sub/decoy2.bin"]
SRCS = ["/x/src.bin", "plain.bin", "/y/decoy2.bin"]
CSUM = ["CRC_32", "CRC_32C", "NULL_CHECKSUM", "MODULAR"]
INITIAL = {"decoy1.bin": b"decoy-one-" * 3, "sub": None, "sub/decoy2.bin": b"\xff" * 17, "keep": None, "keep/k.bin": b"k"}


def seg_bytes(off, length, fill):
    return bytes((fill + off + i * 3) & 0xFF for i in range(length))


_OFF = st.one_of(st.integers(0, 24), st.integers(0, 300), st.integers(0, (1 << 20) - 300))
_LEN = st.one_of(st.integers(0, 12), st.integers(1, 12), st.integers(0, 64))
_FD = st.tuples(st.just("fd"), _OFF, _LEN, st.integers(0, 255))
_FDN = st.tuples(st.just("fdnext"), _LEN, st.integers(0, 255))
_MD = st.tuples(st.just("md"), st.integers(0, len(DESTS) - 1), st.integers(0, len(SRCS) - 1), st.integers(0, 64), st.sampled_from(CSUM), st.booleans())
_EOF = st.tuples(st.just("eof"), st.booleans(), st.sampled_from(["model", "model", "less", "more"]), st.sampled_from(["NO_ERROR", "NO_ERROR", "NO_ERROR", "CANCEL_REQUEST_RECEIVED", "FILE_CHECKSUM_FAILURE"]))


def body_step():
    return st.one_of(
        _FD, _FD, _FDN, _FDN, _FDN, _MD, _EOF, _EOF,
        st.tuples(st.just("ack")), st.tuples(st.just("tick")), st.tuples(st.just("tick")),
        st.tuples(st.just("cancel")), st.tuples(st.just("idle")), st.tuples(st.just("idle")),
    )


@st.composite
def transaction(draw):
    pre = draw(st.lists(_FD, max_size=2)) if draw(st.integers(0, 3)) == 0 else []
    body = draw(st.lists(body_step(), min_size=0, max_size=22))
    closing = [("eof", True, "model", "NO_ERROR"), ("idle",), ("ack",), ("idle",)] if draw(st.booleans()) else []
    return pre + [draw(_MD)] + body + closing


@st.composite
def case_strategy(draw):
    cfg = {
        "immediate_nak": draw(st.booleans()),
        "disposition": draw(st.booleans()),
        "ack_limit": draw(st.integers(1, 3)),
        "nak_limit": draw(st.integers(1, 3)),
        "check_limit": draw(st.integers(1, 3)),
        "max_pkt": draw(st.sampled_from([28, 40, 64, 200])),
        "pdu_crc": draw(st.booleans()),
    }
    txs = draw(st.lists(transaction(), min_size=1, max_size=4))
    steps = [s for t in txs for s in t][:60]
    return {"cfg": cfg, "modes": draw(st.lists(st.sampled_from(["ACK", "NAK"]), min_size=1, max_size=4)), "steps": steps}


def evaluate(case):
    cfg = sim.norm_cfg(case["cfg"])
    root = sim.proc_dir("c05")
    for entry in os.listdir(root):
        fp = root / entry
        shutil.rmtree(fp) if fp.is_dir() else os.remove(fp)
    for k, v in INITIAL.items():
        if v is None:
            (root / k).mkdir()
        else:
            (root / k).write_bytes(v)
    expected = dict(INITIAL)
    rig = sim.dest_rig(cfg)
    h = rig.h
    vs = []
    tx = 0  # index of the current transaction
    seq = 100
    cur_path = None  # resolved destination of the current transaction (relative), once MD accepted
    wm = models.FileWriteModel()
    discarded = False
    next_off = 0
    stats = {"accepted": 0, "overlap": 0, "ooo": 0, "premd": 0, "transactions": 0, "ended_by_internal_error": 0, "completed": 0}
    nt = False
    tx_acc, tx_special = 0, 0
    written = models.IntervalSet()
    was_busy = False
    trace = []
    from cfdppy.defs import CfdpState

    def mode_now():
        return case["modes"][tx % len(case["modes"])]

    for idx, stp in enumerate(case["steps"]):
        if rig.dead is not None:
            break
        kind = stp[0]
        conf = sim.pdu_conf_for(cfg, seq, mode_now())
        pdu = None
        delivered_fd = None
        if kind == "md":
            _, di, si, size, cs, closure = stp
            pdu = MetadataPdu(conf, MetadataParams(closure, sim.CSUMS[cs], size, SRCS[si], str(root / DESTS[di])))
        elif kind in ("fd", "fdnext"):
            if kind == "fd":
                _, off, ln, fill = stp
            else:
                _, ln, fill = stp
                off = next_off
            data = seg_bytes(off, ln, fill)
            pdu = FileDataPdu(conf, FileDataParams(data, off))
            delivered_fd = (off, data)
            next_off = off + ln
        elif kind == "eof":
            _, right, szmode, cond = stp
            content = bytes(wm.data)
            size = len(content) if szmode == "model" else (max(0, len(content) - 1) if szmode == "less" else len(content) + 3)
            ctype = h._params.checksum_type if cur_path is not None else None
            name = sim.CSUM_NAMES.get(ctype, "NULL_CHECKSUM")
            csum = models.ref_checksum(name, content[:size] if size <= len(content) else content)
            if not right:
                csum = bytes([csum[0] ^ 0x5A]) + csum[1:]
            pdu = EofPdu(conf, csum, size, condition_code=ConditionCode[cond])
        elif kind == "ack":
            pdu = AckPdu(conf, DirectiveType.FINISHED_PDU, ConditionCode.NO_ERROR, TransactionStatus.ACTIVE)
        elif kind == "tick":
            rig.tick()
        # ---- the call
        if kind == "cancel":
            if h.transaction_id is None:
                continue
            _, res = rig.cancel()
        else:
            res = rig.call(pdu)
        trace.append([kind, None if res.exc is None else type(res.exc).__name__, h.step.name])
        if res.exc is not None and not res.lib:
            stats["ended_by_internal_error"] += 1
            break
        # ---- interpret indications
        for e in res.inds:
            name, d = e[2], e[3]
            if name == "metadata_recv":
                if d["dst"] is not None:
                    rel = os.path.relpath(d["dst"], root)
                    if expected.get(rel, "x") is None and rel in expected:
                        rel = rel + "/" + os.path.basename(d["src"])
                    cur_path = rel
                    wm.reset()
                    expected[cur_path] = b""
                    discarded = False
                    stats["transactions"] += 1
                    tx_acc, tx_special = 0, 0
                    written = models.IntervalSet()
            elif name == "segment_recv":
                if delivered_fd is None or (d["off"], d["len"]) != (delivered_fd[0], len(delivered_fd[1])):
                    vs.append(verdict("indication-matches-delivery", "C05/segment-indication-mismatch", f"step {idx}: indication {d} delivered {None if delivered_fd is None else (delivered_fd[0], len(delivered_fd[1]))}"))
                    break
                if cur_path is None:
                    vs.append(verdict("no-write-before-metadata", "C05/segment-accepted-before-metadata", f"step {idx}: {d}"))
                    break
                off, data = delivered_fd
                if data:
                    if written.intersects(off, off + len(data)):
                        stats["overlap"] += 1
                        tx_special += 1
                    elif off < (written.r[-1][1] if written.r else 0):
                        stats["ooo"] += 1
                        tx_special += 1
                    written.add(off, off + len(data))
                wm.write(off, data)
                expected[cur_path] = bytes(wm.data)
                stats["accepted"] += 1
                tx_acc += 1
                if tx_acc >= 2 and tx_special >= 1:
                    nt = True
            elif name == "finished":
                if d["status"] == 0 and cfg["disposition"]:  # DISCARDED_DELIBERATELY
                    discarded = True
                if d["cond"] == 0 and d["delivery"] == 0:
                    stats["completed"] += 1
        if vs:
            break
        if delivered_fd is not None and cur_path is None and h.state == CfdpState.BUSY and delivered_fd[1]:
            stats["premd"] += 1
            tx_special += 1
        # ---- the tree
        actual = sim.tree_snapshot(root)
        exp = dict(expected)
        if discarded and cur_path is not None and cur_path not in actual:
            exp.pop(cur_path, None)
        if actual != exp:
            keys = sorted(set(actual) | set(exp))
            diffs = [k for k in keys if actual.get(k, "<absent>") != exp.get(k, "<absent>")]
            k = diffs[0]
            if k == cur_path:
                if k not in actual:
                    sig = "C05/destination-missing"
                else:
                    sig = "C05/destination-content-differs"
            elif k in INITIAL:
                sig = "C05/other-path-modified"
            else:
                sig = "C05/unexpected-path-created"
            a, b = actual.get(k, "<absent>"), exp.get(k, "<absent>")
            vs.append(verdict("tree-equals-model", sig, f"step {idx} {kind}: path {k}: actual {str(a)[:80]} expected {str(b)[:80]} (dest {cur_path})"))
            break
        if discarded and cur_path is not None and cur_path not in actual:
            expected.pop(cur_path, None)
        # ---- transaction bookkeeping
        busy = h.state == CfdpState.BUSY
        if was_busy and not busy:
            tx += 1
            seq += 1
            cur_path = None
            wm.reset()
            next_off = 0
        was_busy = busy
    classes = [k for k, v in stats.items() if v]
    if stats["transactions"] >= 2:
        classes.append("multi-transaction")
    return Result(vs, nt, classes, {"trace": trace[:25], "stats": stats})


def replay(case):
    return evaluate(case).verdicts


PARAMS = {"quick": 900, "thorough": 15000}


def shard(ctx):
    out = Out()
    hyp_search(out, ctx["known"], case_strategy(), evaluate, PARAMS[ctx["tier"]], ctx["seed"])
    sim.cleanup_sandbox()
    from .. import fuzz

    fuzz.thorough_stage("C05", ctx, out)
    return out


def selftest(merged, tier):
    c = merged["classes"]
    for k in ("accepted", "overlap", "ooo", "premd", "multi-transaction", "completed"):
        if c.get(k, 0) < 20:
            return f"class {k} nearly empty: {c.get(k, 0)}"
    return None
