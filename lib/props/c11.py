"""C11 - transactions are isolated from earlier transactions and other handler instances."""
from __future__ import annotations

from hypothesis import strategies as st

from .. import models, sim
from .. import strategies as S
from ..core import Out, Result, hyp_search, verdict

ID = "C11"
LEVEL = "exploration"
TECHNIQUE = "differential: the observable trace of a generated transfer on fresh handlers vs after a generated history on the same handlers vs beside sibling handlers mid-transaction"
LEVEL_TEXT = (
    "A subject transfer (any mode, any fault schedule, optional cancel) is run three ways in one process: on freshly constructed handlers; on "
    "handlers that first carried 1-4 generated transactions ended by completion, cancellation, limit faults or abandonment; and on fresh handlers "
    "while a sibling handler pair is stepped call by call in the middle of its own transaction. The observable traces (PDU bytes with the "
    "sequence number masked, indications, fault callbacks, return values, exceptions, final file) must be identical."
)
LEVEL_NOTE = (
    "Sampled. The shared-tracker work-around used by other checks is NOT applied between the history and the subject (only once at the start of "
    "a case, to undo leftovers of earlier cases on trees where the defect exists). Histories that do not bring both handlers back to idle are "
    "discarded and counted (that is C04's subject)."
)
RULE = (
    "case = MIB configuration + subject transfer (file spec, request-level mode/closure, fault schedule, optional cancel injection) + history of "
    "1-4 such transfers + optional sibling (transfer, number of steps before the subject starts, steps per subject step). Non-trivial: the history "
    "contains an acknowledged-mode transaction that was cancelled / hit a fault / lost PDUs, or the subject is an empty or metadata-only transfer "
    "after a non-empty one, or the sibling is between its Metadata and its EOF when the subject starts. Distinct = distinct case."
)
ASSUMPTIONS = [
    "transaction sequence numbers are masked in the comparison; earlier transactions come from the subject's sender or from a second sending entity with its own MIB entry at the receiver",
    "the destination directory is emptied before every transfer (same filestore state for the fresh and the after-history run)",
    "timers of a sibling pair do not drive the subject's clock (the harness advances the clock to the subject's own next expiry)",
]


@st.composite
def transfer(draw, cfg, allow_none=True):
    if draw(st.integers(0, 3)) == 0:
        # lossy acknowledged transfer: several disjoint File Data PDUs are dropped, so that NAK sequences with
        # several segment requests (split over several NAK PDUs for small packet lengths) occur
        seg = S.eff_seg_len(cfg)
        nseg = draw(st.integers(3, 12))
        t = {"file": {"pat": draw(st.binary(min_size=1, max_size=8)), "size": nseg * seg - draw(st.integers(0, min(seg - 1, 3)))}}
        t["req_mode"] = "ACK"
        t["req_closure"] = draw(st.sampled_from([None, True, False]))
        lost = draw(st.lists(st.integers(0, nseg - 1), min_size=1, max_size=6, unique=True))
        t["faults"] = [["FD", i, "drop", 0] for i in sorted(lost)] + draw(S.fault_schedules(max_faults=1, actions=("drop", "dup", "delay")))
        return t
    if draw(st.integers(0, 7)) == 0:
        # return link down: every acknowledgement is lost, so both positive ACK procedures run to their limits and the
        # re-sent EOF PDUs keep arriving while the receiver waits for the ACK of its Finished PDU (cancellation, then
        # abandonment, possibly in a call that has already queued a PDU)
        t = {"file": draw(S.file_specs(cfg, max_bytes=200, max_segments=5, allow_none=False)), "req_mode": "ACK", "req_closure": draw(st.sampled_from([None, True, False]))}
        t["faults"] = [["ACK_EOF", 0, "dropall", 0], ["ACK_FIN", 0, "dropall", 0]] + ([["NAK", 0, "dropall", 0]] if draw(st.booleans()) else [])
        return t
    t = {"file": draw(S.file_specs(cfg, max_bytes=400, max_segments=10, allow_none=allow_none))}
    t["req_mode"] = draw(st.sampled_from([None, None, "ACK", "NAK"]))
    t["req_closure"] = draw(st.sampled_from([None, None, True, False]))
    fs = draw(S.fault_schedules(max_faults=4, actions=("drop", "drop", "dup", "delay", "hold", "dropall")))
    t["faults"] = fs
    if draw(st.integers(0, 3)) == 0:
        t["inject"] = [[draw(st.sampled_from(["src", "dst"])), draw(st.integers(1, 12)), "cancel", True]]
    return t


@st.composite
def case_strategy(draw):
    cfg = draw(S.cfgs(vary_limits=True, max_limit=3, request_overrides=False))
    if draw(st.integers(0, 2)) == 0:
        cfg["fh_dst"] = draw(st.sampled_from([{}, {"POSITIVE_ACK_LIMIT_REACHED": "ABANDON"}, {"NAK_LIMIT_REACHED": "ABANDON"}, {"FILE_CHECKSUM_FAILURE": "CANCEL"}]))
        cfg["fh_src"] = draw(st.sampled_from([{}, {"POSITIVE_ACK_LIMIT_REACHED": "ABANDON"}]))
    case = {"cfg": cfg, "subject": draw(transfer(cfg)), "history": draw(st.lists(transfer(cfg), min_size=1, max_size=4))}
    if draw(st.integers(0, 2)) == 0:
        # a second sending entity with its own MIB entry at the receiver (other packet / segment length, id width,
        # CRC flag, checksum type, limits): some of the earlier transactions come from it
        alt = draw(S.cfgs(vary_limits=True, max_limit=3, request_overrides=False, transports=(cfg["transport"],)))
        alt["dst_id"] = list(cfg["dst_id"])
        alt["src_id"] = [alt["src_id"][0], (cfg["src_id"][1] + 1 + draw(st.integers(0, 5))) % (1 << (8 * alt["src_id"][0]))]
        if alt["src_id"][1] in (cfg["src_id"][1], cfg["dst_id"][1]):
            alt["src_id"][1] = (max(cfg["src_id"][1], cfg["dst_id"][1]) + 1) % 250
        alt["max_pkt"] = sim.min_packet_len(sim.norm_cfg(alt)) + draw(st.one_of(st.integers(0, 8), st.integers(0, 600)))
        case["alt"] = alt
        hist = []
        for t in case["history"]:
            if draw(st.booleans()):
                t = draw(transfer(alt))
                t["via"] = "alt"
            hist.append(t)
        case["history"] = hist
    if draw(st.integers(0, 2)) == 0:
        case["sibling"] = {"t": draw(transfer(cfg, allow_none=False)), "pre": draw(st.integers(1, 12)), "every": draw(st.integers(1, 3))}
        if draw(st.booleans()):
            # the sibling entities have their own fault-handler tables
            case["sibling"]["fh_dst"] = draw(st.sampled_from([{"FILE_CHECKSUM_FAILURE": "CANCEL"}, {"CHECK_LIMIT_REACHED": "ABANDON"}, {"NAK_LIMIT_REACHED": "IGNORE"}, {"FILE_SIZE_ERROR": "IGNORE"}]))
            case["sibling"]["fh_src"] = draw(st.sampled_from([{}, {"POSITIVE_ACK_LIMIT_REACHED": "ABANDON"}, {"CHECK_LIMIT_REACHED": "IGNORE"}]))
    return case


def _tcase(cfg, t, alt=None):
    c = dict(alt if t.get("via") == "alt" else cfg)
    c["req_mode"], c["req_closure"] = t.get("req_mode"), t.get("req_closure")
    return {"cfg": c, "file": t["file"], "faults": t.get("faults"), "inject": t.get("inject"), "via": t.get("via")}


def _norm_raw(raw, cfg):
    b = bytearray(raw)
    idw = ((b[3] >> 4) & 7) + 1
    sw = (b[3] & 7) + 1
    for i in range(4 + idw, 4 + idw + sw):
        b[i] = 0
    if (b[0] >> 1) & 1:
        b = b[:-2]
    return bytes(b).hex()


def _norm_tid(t):
    return None if t is None else t[0]


def observable(s, base_now):
    out = []
    for e in s.tlog:
        k = e[0]
        if k == "call":
            out.append(("call", e[1], e[3]))
        elif k in ("emit", "entity_emit"):
            out.append((k, e[1], sim.pdu_kind(e[3]), _norm_raw(e[4], s.cfg)))
        elif k == "ind":
            d = dict(e[3])
            d["tid"] = _norm_tid(d.get("tid"))
            if "orig" in d:
                d["orig"] = _norm_tid(d["orig"])
            out.append(("ind", e[1], e[2], sorted(d.items(), key=lambda kv: kv[0])))
        elif k == "fault":
            out.append(("fault", e[1], e[2], _norm_tid(e[3]), e[4], e[5]))
        elif k == "exc":
            out.append(("exc", e[1], e[3], e[4]))
        elif k == "tick":
            out.append(("tick", e[1] - base_now))
        elif k == "inject":
            out.append(("inject",) + tuple(e[1:5]))
        elif k in ("link", "put", "entity_drop", "emit_error"):
            out.append(tuple(e[:4]))
    out.append(("outcome", s.outcome))
    out.append(("file", None if s.dest_bytes() is None else s.dest_bytes().hex()))
    return out


def _first_diff(a, b):
    for i, (x, y) in enumerate(zip(a, b)):
        if x != y:
            return i, x, y
    if len(a) != len(b):
        i = min(len(a), len(b))
        return i, a[i] if i < len(a) else None, b[i] if i < len(b) else None
    return None


def _diff_sig(d):
    i, x, y = d
    kx = None if x is None else x[0]
    ky = None if y is None else y[0]
    if kx == ky == "emit":
        return f"emit-differs/{x[1]}/{x[2]}-vs-{y[2]}"
    if kx == ky == "exc":
        return f"exception-differs/{x[2]}-vs-{y[2]}"
    if kx == ky == "ind":
        return f"indication-differs/{x[1]}/{x[2]}-vs-{y[2]}"
    if "exc" in (kx, ky):
        e = x if kx == "exc" else y
        return f"exception-only-in-one/{e[1]}/{e[2]}"
    return f"{kx}-vs-{ky}"


def evaluate(case):
    cfg = sim.norm_cfg(case["cfg"])
    sim.install_clock()
    sim.workaround_shared_tracker()  # only here: undo leftovers of earlier *cases* (see LEVEL_NOTE)
    pol = sim.fault_table_isolation_probe()
    if pol is not None:
        # configuration given to one fault handler object (an earlier transaction's or a sibling's entity) shows up in a
        # newly constructed one: process-wide state. The probe is self-contained and restores the defaults.
        return Result([verdict("no-process-wide-state", "C11/fault-handler-table-shared-between-instances", pol)], True, ["table-shared"], {})
    vs = []
    classes = []
    nt = False
    subj = _tcase(cfg, case["subject"])
    # 1. fresh
    alt = case.get("alt")
    a = sim.Sim(subj, name="c11", keep_tracker=True, alt_cfg=alt)
    a.run(max_steps=3000, max_ticks=40)
    ta = observable(a, 1_000_000)
    a.close()
    subj_mode = subj["cfg"]["req_mode"] or cfg["mode"]
    summary = {"fresh_outcome": a.outcome, "subject_mode": subj_mode}
    # 2. after a history
    sim.CLOCK.reset()
    sess = sim.Session(cfg, "c11", alt_cfg=alt)
    hist_ok = True
    hist_facts = []
    try:
        for t in case["history"]:
            hs = sim.Sim(_tcase(cfg, t, alt), keep_tracker=True, session=sess)
            hs.run(max_steps=3000, max_ticks=60)
            mode = t.get("req_mode") or (alt if t.get("via") == "alt" else cfg)["mode"]
            eventful = bool(hs.link.applied) or bool(hs.faults()) or any(e[0] == "inject" and e[4] is True for e in hs.tlog)
            hist_facts.append({"outcome": hs.outcome, "mode": mode, "eventful": eventful, "size": None if hs.content is None else len(hs.content), "via": t.get("via", "main")})
            if hs.outcome not in ("done",) or not (hs.src.idle() and hs.dst.idle()) or hs.src.internal_error or hs.dst.internal_error:
                hist_ok = False
                break
        summary["history"] = hist_facts
        if hist_ok:
            b = sim.Sim(subj, keep_tracker=True, session=sess)
            b.run(max_steps=3000, max_ticks=40)
            tb = observable(b, 1_000_000)
            d = _first_diff(ta, tb)
            classes.append("history-compared")
            if any(h["mode"] == "ACK" and h["eventful"] for h in hist_facts):
                nt = True
                classes.append("history-with-faulted-acked-transaction")
            if (a.content is None or len(a.content) == 0) and any(h["size"] for h in hist_facts):
                nt = True
                classes.append("empty-or-mdonly-after-nonempty")
            if any(h["via"] == "alt" for h in hist_facts):
                classes.append("history-from-second-sender")
            if d is not None:
                vs.append(verdict("same-as-fresh-after-history", f"C11/after-history/{_diff_sig(d)}", f"event {d[0]}: fresh {str(d[1])[:200]} / after history {str(d[2])[:200]}; history {hist_facts}"))
        else:
            classes.append("history-not-idle-discarded")
    finally:
        sess.close()
    # 3. beside a sibling
    sib = case.get("sibling")
    if sib is not None and not vs:
        sim.CLOCK.reset()
        scfg = dict(cfg)
        if "fh_dst" in sib:
            scfg["fh_dst"], scfg["fh_src"] = sib["fh_dst"], sib["fh_src"]
        sb = sim.Sim(_tcase(scfg, sib["t"]), name="c11s", keep_tracker=True)
        sb.put()
        for i in range(sib["pre"]):
            sb.step("src" if i % 2 == 0 else "dst")
        kinds = [sim.pdu_kind(p) for p in sb.emitted("src")]
        mid = "MD" in kinds and "EOF" not in kinds and not sb.dst.idle()
        base = sim.CLOCK.now
        c = sim.Sim(subj, name="c11", keep_tracker=True, fresh_clock=False)
        state = {"n": 0}

        def between(_s, sb=sb, state=state, every=sib["every"]):
            if sb.src.internal_error or sb.dst.internal_error or sb.done():
                return
            for _ in range(every):
                sb.step("src" if state["n"] % 2 == 0 else "dst")
                state["n"] += 1

        c.between = between
        c.run(max_steps=3000, max_ticks=40)
        tc = observable(c, base)
        c.close()
        sb.close()
        classes.append("sibling-compared")

        if mid:
            nt = True
            classes.append("sibling-mid-transaction")
        d = _first_diff(ta, tc)
        if d is not None:
            vs.append(verdict("same-as-fresh-beside-sibling", f"C11/beside-sibling/{_diff_sig(d)}", f"event {d[0]}: alone {str(d[1])[:200]} / beside sibling {str(d[2])[:200]}"))
    return Result(vs, nt, classes, summary)


def replay(case):
    return evaluate(case).verdicts


PARAMS = {"quick": 600, "thorough": 10000}


def shard(ctx):
    out = Out()
    hyp_search(out, ctx["known"], case_strategy(), evaluate, PARAMS[ctx["tier"]], ctx["seed"])
    sim.cleanup_sandbox()
    return out


def selftest(merged, tier):
    c = merged["classes"]
    for k in ("history-compared", "history-with-faulted-acked-transaction", "empty-or-mdonly-after-nonempty", "sibling-mid-transaction"):
        if c.get(k, 0) < 20:
            return f"class {k} nearly empty: {c.get(k, 0)}"
    return None
