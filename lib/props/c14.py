"""C14 - declared faults take the effect configured in the fault-handler table."""
from __future__ import annotations

import itertools

from hypothesis import strategies as st
from spacepackets.cfdp import ConditionCode, FaultHandlerCode, TransactionId
from spacepackets.cfdp.pdu import EofPdu, FileDataPdu, MetadataParams, MetadataPdu
from spacepackets.cfdp.pdu.file_data import FileDataParams
from spacepackets.util import UnsignedByteField

from .. import models, sim
from ..core import Out, Result, enum_search, hyp_search, verdict

ID = "C14"
LEVEL = "fault_enumeration"
TECHNIQUE = (
    "complete enumeration of the table (declaration site x handler code {ignore, notice of cancellation, abandon}) with scripted single-handler "
    "scenarios that produce exactly one declaration at a known call, Hypothesis-randomised in sizes / limits / modes / closure / NAK mode / checksum "
    "type; plus the configuration API over every condition code x handler code"
)
LEVEL_TEXT = (
    "For every site at which a handler declares a fault (sender: positive ACK limit, check limit; receiver: positive ACK limit, NAK limit, check "
    "limit, checksum failure at EOF / at a check-timer expiry / at acknowledged completion, file size error by File Data beyond the EOF size and by an "
    "EOF below the progress, filestore rejection on create / truncate / missing directory) the handler code of that condition is set to ignore, "
    "notice of cancellation or abandon and the scenario is driven to the declaring call. Checked there and in the two following calls: exactly "
    "one callback of the configured kind for that condition with the transaction id and the progress; ignore: no cancel effect; cancellation: the "
    "condition in the EOF (cancel) / Finished PDU and the Transaction-Finished indication; abandon: idle at once, nothing emitted or indicated; "
    "never an exception, never an indication without transaction id. set_handler / report_fault are enumerated over all condition codes."
)
LEVEL_NOTE = (
    "The oracle covers the first declaration of a scenario and its immediate consequences; a fault that recurs later under 'ignore' (e.g. the "
    "checksum failing again at the next expiry) is another declaration. Callbacks for other conditions in the same call are other faults and are "
    "only counted. A Cancel.request is not routed through the table by the handlers: for that row only the negative clauses are checked. Notice of "
    "suspension is documented as unimplemented and is not generated. A rejected write_data after a successful create is never declared by the "
    "receiver (so there is no such site); its consequences are C01's."
)
RULE = (
    "case = (site, handler code, mode/closure/NAK mode, number of segments, limits, checksum type, variant). Non-trivial: the declaring call was "
    "reached and declared the condition. Distinct = (site, code, mode, closure, variant) for the exhaustive part (by construction), case hash for "
    "the sampled part."
)
ASSUMPTIONS = [
    "all other conditions keep their default handler code (checksum failure: ignore; everything else: notice of cancellation)",
    "progress reported to the callback: the handler's progress before the declaring call, or including the PDU handled by that call (both accepted)",
]

SEG = 4
CODES = ["IGNORE", "CANCEL", "ABANDON"]
SITES = [
    "src_ack_limit", "src_check_limit", "dst_ack_limit", "dst_nak_limit", "dst_check_limit", "dst_csum_eof", "dst_csum_expiry", "dst_csum_acked", "dst_csum_deferred",
    "dst_size_fd_nak", "dst_size_fd_ack", "dst_size_eof", "dst_store_nodir", "dst_store_create", "dst_store_truncate", "src_cancel_req", "dst_cancel_req",
]
SITE_COND = {
    "src_ack_limit": "POSITIVE_ACK_LIMIT_REACHED", "src_check_limit": "CHECK_LIMIT_REACHED", "dst_ack_limit": "POSITIVE_ACK_LIMIT_REACHED",
    "dst_nak_limit": "NAK_LIMIT_REACHED", "dst_check_limit": "CHECK_LIMIT_REACHED", "dst_csum_eof": "FILE_CHECKSUM_FAILURE",
    "dst_csum_expiry": "FILE_CHECKSUM_FAILURE", "dst_csum_acked": "FILE_CHECKSUM_FAILURE", "dst_csum_deferred": "FILE_CHECKSUM_FAILURE", "dst_size_fd_nak": "FILE_SIZE_ERROR",
    "dst_size_fd_ack": "FILE_SIZE_ERROR", "dst_size_eof": "FILE_SIZE_ERROR", "dst_store_nodir": "FILESTORE_REJECTION",
    "dst_store_create": "FILESTORE_REJECTION", "dst_store_truncate": "FILESTORE_REJECTION", "src_cancel_req": "CANCEL_REQUEST_RECEIVED",
    "dst_cancel_req": "CANCEL_REQUEST_RECEIVED",
}


def _content(n):
    return bytes(((i * 11 + 5) % 255) + 1 for i in range(n))


def run_scenario(case):
    pol = sim.fault_table_isolation_probe()
    if pol is not None:
        # the table of the *local entity* decides: configuring one fault handler object must not change another one
        # (self-contained probe, restores the defaults)
        return Result([verdict("table-is-per-entity", "C14/fault-handler-table-shared-between-instances", pol)], True, ["table-shared"], {})
    site, code = case["site"], case["code"]
    condname = SITE_COND[site]
    cond = int(ConditionCode[condname])
    side = "src" if site.startswith("src") else "dst"
    nseg = case.get("nseg", 3)
    size = nseg * SEG - case.get("short", 0)
    content = _content(size)
    mode = {"src_ack_limit": "ACK", "src_check_limit": "NAK", "dst_ack_limit": "ACK", "dst_nak_limit": "ACK", "dst_check_limit": "NAK", "dst_csum_eof": "NAK",
            "dst_csum_expiry": "NAK", "dst_csum_acked": "ACK", "dst_csum_deferred": "ACK", "dst_size_fd_nak": "NAK", "dst_size_fd_ack": "ACK"}.get(site, case.get("mode", "ACK"))
    closure = bool(case.get("closure", False)) or site == "src_check_limit"
    cfg = {
        "mode": mode, "closure": closure, "crc_type": case.get("csum", "CRC_32"), "max_seg": SEG, "max_pkt": 64,
        "ack_limit": case.get("ack_limit", 2), "nak_limit": case.get("nak_limit", 2), "check_limit": case.get("check_limit", 2),
        "immediate_nak": case.get("immediate_nak", True), "disposition": case.get("disposition", False),
        "fh_src": {condname: code} if side == "src" else {}, "fh_dst": {condname: code} if side == "dst" else {},
    }
    cfg = sim.norm_cfg(cfg)
    root = sim.fresh_dir("c14")
    vfs = None
    dest = root / "d.bin"
    if site == "dst_store_nodir":
        dest = root / "missing_dir" / "d.bin"
    elif site == "dst_store_create":
        vfs = sim.RejectingFilestore(reject_create=True)
    elif site == "dst_store_truncate":
        dest.write_bytes(b"old")
        vfs = sim.RejectingFilestore(reject_truncate=True)
    seq = 7
    script = []  # list of ("pdu", pdu) | ("tick",) | ("idle",) | ("cancel",) ; the last one is the trigger
    if side == "src":
        (root / "src.bin").write_bytes(content)
        rig = sim.source_rig(cfg)
        from cfdppy.request import PutRequest

        rig.h.put_request(PutRequest(UnsignedByteField(cfg["dst_id"][1], cfg["dst_id"][0]), root / "src.bin", root / "dst.bin", sim.MODES[mode], closure))
        if site == "src_cancel_req":
            script = [("idle",)] * (1 + case.get("at", 1)) + [("cancel",)]
        else:
            script = [("until_eof",)]
            if site == "src_ack_limit":
                script += [("tick",)] * (cfg["ack_limit"] - 1)
            script += [("tick",)]
    else:
        rig = sim.dest_rig(cfg, vfs=vfs)
        conf = lambda: sim.pdu_conf_for(cfg, seq, mode)
        csum = models.ref_checksum(cfg["crc_type"], content)
        md = MetadataPdu(conf(), MetadataParams(closure, sim.CSUMS[cfg["crc_type"]], size, "/s/src.bin", str(dest)))
        fd = lambda i, data=None: FileDataPdu(conf(), FileDataParams(content[i * SEG : (i + 1) * SEG] if data is None else data, i * SEG))
        allfd = [("pdu", fd(i)) for i in range(nseg)]
        eof = lambda c=csum, s=size: ("pdu", EofPdu(conf(), c, s))
        miss = case.get("miss", 1) % max(nseg, 1)
        if site == "dst_ack_limit":
            script = [("pdu", md)] + allfd + [eof(), ("until", "FIN")] + [("tick",)] * cfg["ack_limit"]
        elif site == "dst_nak_limit":
            script = [("pdu", md)] + [x for i, x in enumerate(allfd) if i != miss] + [eof(), ("until", "NAK")] + [("tick",)] * cfg["nak_limit"]
        elif site == "dst_check_limit":
            script = [("pdu", md)] + [x for i, x in enumerate(allfd) if i != miss] + [eof()] + [("tick",)] * cfg["check_limit"]
        elif site == "dst_csum_eof":
            if case.get("variant", 0) == 0:
                script = [("pdu", md)] + allfd + [eof(b"\x01\x02\x03\x04")]
            else:
                script = [("pdu", md)] + [x for i, x in enumerate(allfd) if i != miss] + [eof()]
        elif site == "dst_csum_expiry":
            script = [("pdu", md)] + [x for i, x in enumerate(allfd) if i != miss] + [eof(), ("tick",)]
        elif site == "dst_csum_acked":
            bad = bytes(b ^ 0x40 for b in content[miss * SEG : (miss + 1) * SEG])
            script = [("pdu", md)] + [x if i != miss else ("pdu", fd(i, bad)) for i, x in enumerate(allfd)] + [eof(), ("idle",)]
        elif site == "dst_csum_deferred":
            # the file becomes complete through the deferred lost segment procedure, with a corrupted re-sent segment
            bad = bytes(b ^ 0x40 for b in content[miss * SEG : (miss + 1) * SEG])
            script = [("pdu", md)] + [x for i, x in enumerate(allfd) if i != miss] + [eof(), ("until", "NAK"), ("pdu", fd(miss, bad))]
        elif site in ("dst_size_fd_nak", "dst_size_fd_ack"):
            beyond = FileDataPdu(conf(), FileDataParams(b"\x55" * SEG, size - 1 + case.get("variant", 0)))
            script = [("pdu", md)] + [x for i, x in enumerate(allfd) if i != miss] + [eof()]
            if site == "dst_size_fd_ack":
                script += [("until", "NAK")]
            script += [("pdu", beyond)]
        elif site == "dst_size_eof":
            script = [("pdu", md)] + allfd + [eof(s=max(0, size - 1 - case.get("variant", 0)))]
        elif site.startswith("dst_store"):
            if case.get("late_md") and mode == "ACK":
                # the Metadata PDU was lost: the EOF opens the transaction, the deferred procedure re-requests the
                # Metadata, and the rejection is declared when the late Metadata PDU arrives
                script = [eof(), ("until", "NAK"), ("pdu", md)]
            else:
                script = [("pdu", md)]
        elif site == "dst_cancel_req":
            script = [("pdu", md)] + allfd[: case.get("at", 1)] + [("cancel",)]
    h = rig.h
    vs = []
    trace = []
    tid = None
    reached = False
    all_inds = []
    trig = None
    if case.get("prior"):
        # the same handler object first carried a short unacknowledged transaction that was cancelled by its user
        if side == "src":
            from cfdppy.request import PutRequest as _PR

            (root / "prior.bin").write_bytes(b"0123456789")
            # the put request of the scenario is already accepted only when the handler is idle: issue the prior one first
            h.reset()
            h.put_request(_PR(UnsignedByteField(cfg["dst_id"][1], cfg["dst_id"][0]), root / "prior.bin", root / "prior_dst.bin", sim.MODES["NAK"], False))
            rig.call(None)
            rig.call(None)
            rig.cancel()
            for _ in range(4):
                rig.call(None)
            ok_prior = h.states.state.name == "IDLE"
            if ok_prior:
                h.put_request(_PR(UnsignedByteField(cfg["dst_id"][1], cfg["dst_id"][0]), root / "src.bin", root / "dst.bin", sim.MODES[mode], closure))
        else:
            pconf = sim.pdu_conf_for(cfg, seq - 1, "NAK")
            rig.call(MetadataPdu(pconf, MetadataParams(False, sim.CSUMS[cfg["crc_type"]], 10, "/s/p.bin", str(root / "prior_dst.bin"))))
            rig.cancel()
            for _ in range(3):
                rig.call(None)
            ok_prior = h.states.state.name == "IDLE"
        if not ok_prior:
            return Result([], False, ["prior-transaction-did-not-end"], {})
        del rig.log[:]

    def note(label, res):
        trace.append([label, h.step.name, None if res.exc is None else type(res.exc).__name__, [sim.pdu_kind(p) for p in res.out], [(f[2], f[4]) for f in res.faults]])
        all_inds.extend(res.inds)

    def do(op):
        nonlocal tid
        if op[0] == "pdu":
            res = rig.call(op[1])
        elif op[0] == "tick":
            rig.tick()
            res = rig.call(None)
        elif op[0] == "idle":
            res = rig.call(None)
        elif op[0] == "cancel":
            t = h.transaction_id or TransactionId(UnsignedByteField(1, 1), UnsignedByteField(1, 1))
            r, res = rig.cancel(t)
        else:
            raise ValueError(op)
        if h.transaction_id is not None:
            tid = sim.tid_plain(h.transaction_id)
        note(op[0], res)
        return res

    setup_ok = True
    for i, op in enumerate(script[:-1]):
        if op[0] in ("until_eof", "until"):
            want = "EOF" if op[0] == "until_eof" else op[1]
            ok = False
            for _ in range(nseg + 8):
                res = do(("idle",))
                if res.exc is not None or any(f[4] == cond for f in res.faults):
                    break
                if any(sim.pdu_kind(p) == want for p in res.out):
                    ok = True
                    break
            if not ok:
                setup_ok = False
                break
            continue
        res = do(op)
        if res.exc is not None and not res.lib:
            vs.append(verdict("no-exception", f"C14/{site}/{code}/exception-in-setup/{type(res.exc).__name__}", sim._where(res.exc)))
            setup_ok = False
            break
        if any(f[4] == cond for f in res.faults):
            if site == "dst_csum_expiry" and op[0] == "pdu" and sim.pdu_kind(op[1]) == "EOF":
                continue  # the EOF-time declaration (ignored) precedes the expiry-time one: that is site dst_csum_eof
            # declared earlier than the scripted call (e.g. limit 1): that call is the declaring one
            trig = res
            break
    classes = [f"site:{site}", f"code:{code}", f"mode:{mode}"] + (["after-prior-cancelled-transaction"] if case.get("prior") else []) + (["late-metadata"] if case.get("late_md") and site.startswith("dst_store") else [])
    if not setup_ok and not vs:
        return Result([], False, classes + ["setup-did-not-reach-site"], {"trace": trace})
    if vs:
        return Result(vs, False, classes, {"trace": trace})
    progress_before = h.progress
    # the transaction id the callback must carry: that of the PDUs (receiver) / of the running transaction (sender)
    tid_before = tid if side == "src" else (cfg["src_id"][1], seq)
    if trig is None:
        top = script[-1]
        if top[0] in ("until_eof", "until"):
            top = ("idle",)
        trig = do(top)
        trig_op = top
    else:
        trig_op = ("early",)
    follow = []
    idle_after_trigger = h.states.state.name == "IDLE"
    for _ in range(2):
        follow.append(do(("idle",)))
    # ---------------- oracle
    sig = f"C14/{site}/{code}"
    excs = [r for r in [trig] + follow if r.exc is not None]
    if excs:
        e = excs[0].exc
        vs.append(verdict("no-exception", f"{sig}/exception/{type(e).__name__}", sim._where(e) if not excs[0].lib else repr(e)))
    for e in all_inds:
        if e[3].get("tid") is None:
            vs.append(verdict("indication-has-transaction-id", f"{sig}/indication-without-transaction-id/{e[2]}", str(e[3])[:200]))
            break
    mine = [f for f in trig.faults if f[4] == cond]
    others = [f for f in trig.faults if f[4] != cond]
    if site in ("src_cancel_req", "dst_cancel_req"):
        # a request, not a declared fault: only negative clauses
        bad = [f for f in trig.faults if f[4] != cond or f[2] != code]
        if bad:
            vs.append(verdict("no-foreign-callback", f"{sig}/foreign-callback", str(bad)))
        return Result(vs, True, classes + ["request-row"], {"trace": trace})
    if not mine:
        classes.append("site-not-declared")
        return Result(vs, False, classes, {"trace": trace, "note": "the scripted call did not declare the condition"})
    reached = True
    if len(mine) != 1:
        vs.append(verdict("callback-once", f"{sig}/callback-count/{len(mine)}", f"{mine}"))
    f0 = mine[0]
    if f0[2] != code:
        vs.append(verdict("callback-kind", f"{sig}/callback-kind/{f0[2]}", f"configured {code}, invoked {f0[2]}"))
    if f0[3] != tid_before:
        vs.append(verdict("callback-transaction-id", f"{sig}/callback-transaction-id", f"callback {f0[3]} transaction {tid_before}"))
    allowed_progress = {progress_before}
    if trig_op[0] == "pdu":
        p = trig_op[1]
        k = sim.pdu_kind(p)
        if k == "FD":
            allowed_progress.add(max(progress_before, p.offset + len(p.file_data)))
        elif k == "EOF":
            allowed_progress.add(p.file_size)
        elif k == "MD":
            allowed_progress.add(0)
    if trig_op[0] != "early" and f0[5] not in allowed_progress:
        vs.append(verdict("callback-progress", f"{sig}/callback-progress", f"callback progress {f0[5]}, handler progress {sorted(allowed_progress)}"))
    window = [trig] + follow
    outs = [p for r in window for p in r.out]
    cancel_pdus = [p for p in outs if sim.pdu_kind(p) in ("EOF", "FIN") and int(p.condition_code) == cond]
    fin_inds = [e[3] for r in window for e in r.inds if e[2] == "finished"]
    fin_inds_cond = [e for e in fin_inds if e["cond"] == cond]
    if code == "IGNORE":
        if cancel_pdus or fin_inds_cond:
            vs.append(verdict("ignore-continues", f"{sig}/cancel-effect-although-ignored", f"PDUs {[sim.pdu_desc(p) for p in cancel_pdus]} indications {fin_inds_cond}"))
    elif code == "CANCEL":
        if side == "src":
            if not [p for p in cancel_pdus if sim.pdu_kind(p) == "EOF"]:
                vs.append(verdict("cancel-reported-to-peer", f"{sig}/no-eof-cancel", f"emitted {[sim.pdu_kind(p) for p in outs]}"))
        else:
            if not fin_inds_cond:
                vs.append(verdict("cancel-reported-to-user", f"{sig}/no-finished-indication-with-condition", f"indications {fin_inds}"))
            if (closure or mode == "ACK") and not [p for p in cancel_pdus if sim.pdu_kind(p) == "FIN"]:
                vs.append(verdict("cancel-reported-to-peer", f"{sig}/no-finished-pdu-with-condition", f"emitted {[sim.pdu_kind(p) for p in outs]}"))
    elif code == "ABANDON":
        if not idle_after_trigger:
            vs.append(verdict("abandon-idle", f"{sig}/not-idle-after-abandon/{trace[-3][1]}", ""))
        late = [p for r in follow for p in r.out]
        if cancel_pdus or late:
            vs.append(verdict("abandon-silent", f"{sig}/pdu-after-abandon", f"{[sim.pdu_desc(p) for p in cancel_pdus + late][:3]}"))
        if fin_inds:
            vs.append(verdict("abandon-silent", f"{sig}/finished-indication-after-abandon", str(fin_inds[:2])))
    foreign = [f for f in others if f[2] != "IGNORE" and f[4] != int(ConditionCode.FILE_CHECKSUM_FAILURE)]
    if others:
        classes.append("other-fault-in-same-call")
    classes.append("declared")
    return Result(vs, reached, classes, {"trace": trace[-8:], "callback": list(f0[2:]), "progress_before": progress_before})


def run_api(case):
    """Configuration API: set_handler / report_fault over every condition code x handler code."""
    condname, code = case["cond"], case["code"]
    log = []
    fh = sim.RecFaults(log, "api")
    cond = ConditionCode[condname]
    table = {"CANCEL_REQUEST_RECEIVED", "POSITIVE_ACK_LIMIT_REACHED", "KEEP_ALIVE_LIMIT_REACHED", "INVALID_TRANSMISSION_MODE", "FILE_CHECKSUM_FAILURE",
             "FILE_SIZE_ERROR", "FILESTORE_REJECTION", "NAK_LIMIT_REACHED", "INACTIVITY_DETECTED", "CHECK_LIMIT_REACHED", "UNSUPPORTED_CHECKSUM_TYPE"}
    inside = condname in table
    vs = []
    pol = sim.fault_table_isolation_probe()
    if pol is not None:
        return Result([verdict("table-is-per-entity", "C14/fault-handler-table-shared-between-instances", pol)], True, ["table-shared"], {})
    tid = TransactionId(UnsignedByteField(3, 2), UnsignedByteField(9, 2))
    sig = f"C14/api/{'table' if inside else 'outside'}"
    try:
        fh.set_handler(cond, sim.FH_CODES[code])
        if not inside:
            vs.append(verdict("api-refuses-outside", f"{sig}/set_handler-accepted/{condname}", ""))
    except ValueError:
        if inside:
            vs.append(verdict("api-accepts-table", f"{sig}/set_handler-refused/{condname}", ""))
    except Exception as e:  # noqa: BLE001
        vs.append(verdict("api-refuses-outside", f"{sig}/set_handler-raised/{type(e).__name__}", repr(e)))
    if inside and fh.get_fault_handler(cond) != sim.FH_CODES[code]:
        vs.append(verdict("api-accepts-table", f"{sig}/get_fault_handler-mismatch/{condname}", ""))
    try:
        fh.report_fault(tid, cond, 17)
        if not inside:
            vs.append(verdict("api-refuses-outside", f"{sig}/report_fault-accepted/{condname}", ""))
        else:
            want = ("fault", "api", code, (3, 9), int(cond), 17)
            if log != [want]:
                vs.append(verdict("api-dispatch", f"{sig}/report_fault-dispatch/{code}", f"got {log} want {[want]}"))
    except ValueError:
        if inside:
            vs.append(verdict("api-accepts-table", f"{sig}/report_fault-refused/{condname}", ""))
    except Exception as e:  # noqa: BLE001
        vs.append(verdict("api-refuses-outside", f"{sig}/report_fault-raised/{type(e).__name__}", repr(e)))
    return Result(vs, True, ["api", "api-inside" if inside else "api-outside"], {"log": log})


def evaluate(case):
    if case.get("part") == "api":
        return run_api(case)
    return run_scenario(case)


def replay(case):
    return evaluate(case).verdicts


def exhaustive_cases(shard, nshards):
    idx = 0
    for site, code in itertools.product(SITES, CODES):
        if site == "dst_csum_expiry" and code != "IGNORE":
            continue  # only reachable when the EOF-time failure was ignored
        for closure, variant, lim in itertools.product([False, True], [0, 1], [1, 2, 3]):
            for mode in (("ACK", "NAK") if site.startswith("dst_store") or site.endswith("cancel_req") or site == "dst_size_eof" else (None,)):
                idx += 1
                if idx % nshards != shard:
                    continue
                c = {"part": "site", "site": site, "code": code, "closure": closure, "variant": variant, "ack_limit": lim, "nak_limit": lim, "check_limit": max(lim, 2 if site == "dst_csum_expiry" else 1), "nseg": 3, "miss": 1, "at": variant + 1}
                if mode:
                    c["mode"] = mode
                yield c
                if lim == 2:
                    c2 = dict(c)
                    c2["prior"] = True
                    yield c2
                if site.startswith("dst_store") and mode == "ACK":
                    c3 = dict(c)
                    c3["late_md"] = True
                    yield c3
    for cond in ConditionCode:
        for code in ["IGNORE", "CANCEL", "ABANDON", "SUSPEND"]:
            idx += 1
            if idx % nshards != shard:
                continue
            yield {"part": "api", "cond": cond.name, "code": code}


@st.composite
def sampled_case(draw):
    site = draw(st.sampled_from(SITES))
    code = draw(st.sampled_from(CODES))
    if site == "dst_csum_expiry":
        code = "IGNORE"
    nseg = draw(st.integers(1, 6))
    return {
        "part": "site", "site": site, "code": code, "closure": draw(st.booleans()), "variant": draw(st.integers(0, 2)), "ack_limit": draw(st.integers(1, 4)),
        "nak_limit": draw(st.integers(1, 4)), "check_limit": draw(st.integers(2 if site == "dst_csum_expiry" else 1, 4)), "nseg": nseg,
        "short": draw(st.integers(0, SEG - 1)) if draw(st.booleans()) else 0, "miss": draw(st.integers(0, 5)), "at": draw(st.integers(0, nseg)),
        "mode": draw(st.sampled_from(["ACK", "NAK"])), "csum": draw(st.sampled_from(["CRC_32", "CRC_32C", "MODULAR"])),
        "immediate_nak": draw(st.booleans()), "disposition": draw(st.booleans()), "prior": draw(st.integers(0, 3)) == 0, "late_md": draw(st.integers(0, 2)) == 0,
    }


PARAMS = {"quick": 1000, "thorough": 12000}


def shard(ctx):
    models.selfcheck()
    out = Out()
    enum_search(out, ctx["known"], exhaustive_cases(ctx["shard"], ctx["nshards"]), evaluate, stop_after=30)
    out.extra["exhaustive_cases"] = out.evaluations
    out.extra["exhaustive_part"] = "17 sites x 3 handler codes x closure x variant x limit 1..3 (x mode where the site exists in both), for limit 2 also on a handler object that first carried a user-cancelled transaction; configuration API: every ConditionCode x 4 handler codes"
    out.exhaustive = False
    hyp_search(out, ctx["known"], sampled_case(), evaluate, PARAMS[ctx["tier"]], ctx["seed"])
    sim.cleanup_sandbox()
    return out


def selftest(merged, tier):
    c = merged["classes"]
    for s in SITES:
        if c.get(f"site:{s}", 0) < 5:
            return f"site {s} nearly empty"
    for k in ("declared", "code:IGNORE", "code:CANCEL", "code:ABANDON", "api-inside", "api-outside", "request-row"):
        if c.get(k, 0) < 5:
            return f"class {k} nearly empty: {c.get(k, 0)}"
    if c.get("site-not-declared", 0) > 0.35 * c.get("declared", 1):
        return f"too many scenarios never declare their condition: {c.get('site-not-declared')} vs {c.get('declared')}"
    return None
