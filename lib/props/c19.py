"""C19 - put requests are admitted, parameterised and identified correctly."""
from __future__ import annotations

import os

from hypothesis import strategies as st
from spacepackets.cfdp import ConditionCode
from spacepackets.cfdp.pdu import AckPdu, DirectiveType, FinishedPdu, TransactionStatus
from spacepackets.cfdp.pdu.finished import DeliveryCode, FileStatus, FinishedParams
from spacepackets.util import UnsignedByteField

from .. import models, sim
from ..core import Out, Result, hyp_search, verdict

ID = "C19"
LEVEL = "exploration"
TECHNIQUE = "Hypothesis-generated put/advance/finish/cancel histories on one SourceHandler with several remote entities; differential twin without the refused requests plus a parameterisation model"
LEVEL_TEXT = (
    "Histories of valid, invalid (missing file, unknown destination) and premature put requests interleaved with running transactions on one "
    "SourceHandler whose MIB has 2-4 remote entities with different mode / closure / CRC / segment / packet-length settings and a "
    "sequence-number provider started near its wrap point. Every refused request must leave no trace (byte-identical output to a twin handler "
    "that never saw it); every accepted request must take mode, closure and segment length from the right place and the provider's next value."
)
LEVEL_NOTE = "Sampled histories (<= 25 operations). The twin is a second handler instance fed the same history minus the refused requests."
RULE = (
    "history = local configuration + 2-4 remote configurations + <= 25 operations from {put(destination incl. unknown, file incl. missing, "
    "request mode, request closure), advance k calls, finish (answer what the handler waits for), cancel}. Non-trivial: >= 1 refused and >= 2 "
    "accepted put requests. Distinct = distinct history."
)
ASSUMPTIONS = [
    "sequence-number providers wrap at their width (the harness's provider; spacepackets' in-memory provider counts without bound)",
    "max_packet_len of every remote entity >= minimum for the fixed-size PDUs",
]

FILES = [("f0.bin", 0), ("f1.bin", 1), ("f7.bin", 7), ("f40.bin", 40), ("f200.bin", 200), ("missing.bin", None)]


@st.composite
def remote(draw, idx):
    w = draw(st.sampled_from([1, 2, 4]))
    r = {
        "dst_id": [w, 10 + idx],
        "mode": draw(st.sampled_from(["ACK", "NAK"])),
        "closure": draw(st.booleans()),
        "pdu_crc": draw(st.booleans()),
        "crc_type": draw(st.sampled_from(["CRC_32", "CRC_32C", "MODULAR", "NULL_CHECKSUM"])),
        "max_seg": draw(st.one_of(st.none(), st.integers(1, 12), st.integers(13, 200))),
        "slack": draw(st.one_of(st.integers(0, 6), st.integers(0, 120))),
    }
    return r


@st.composite
def case_strategy(draw):
    bits = draw(st.sampled_from([8, 16, 32]))
    local = {"src_id": [draw(st.sampled_from([1, 2, 4])), 3], "seq_width": bits, "seq_start": draw(st.sampled_from([0, (1 << bits) - 1, (1 << bits) - 2, 5]))}
    n = draw(st.integers(2, 4))
    remotes = [draw(remote(i)) for i in range(n)]
    put = st.tuples(st.just("put"), st.integers(0, n), st.integers(0, len(FILES) - 1), st.sampled_from([None, "ACK", "NAK"]), st.sampled_from([None, True, False])).map(list)
    op = st.one_of(put, put, put, st.tuples(st.just("adv"), st.integers(1, 6)).map(list), st.just(["finish"]), st.just(["finish"]), st.just(["cancel"]))
    return {"local": local, "remotes": remotes, "ops": draw(st.lists(op, min_size=2, max_size=25))}


def _remote_cfgs(case):
    out = []
    for r in case["remotes"]:
        c = sim.norm_cfg({**case["local"], **{k: v for k, v in r.items() if k != "slack"}})
        c["max_pkt"] = sim.min_packet_len({**c, "mode": "ACK"}) + r["slack"]
        out.append(c)
    return out


class Driver:
    def __init__(self, case, root):
        self.case = case
        self.rcfgs = _remote_cfgs(case)
        base = self.rcfgs[0]
        extra = [sim.remote_cfg_for(c, UnsignedByteField(c["dst_id"][1], c["dst_id"][0])) for c in self.rcfgs[1:]]
        self.rig = sim.source_rig(base, extra_remote=extra)
        self.h = self.rig.h
        self.root = root
        self.stream = []  # bytes of every emitted PDU
        self.tx = []  # per accepted put: dict
        self.cur = None

    def put(self, di, fi, mode, closure):
        from cfdppy.request import PutRequest

        n = len(self.rcfgs)
        if di < n:
            c = self.rcfgs[di]
            dest = UnsignedByteField(c["dst_id"][1], c["dst_id"][0])
        else:
            c = None
            dest = UnsignedByteField(99, 1)
        name, size = FILES[fi]
        req = PutRequest(dest, self.root / name, self.root / ("out_" + name), None if mode is None else sim.MODES[mode], closure)
        try:
            r = self.h.put_request(req)
            exc = None
        except Exception as e:  # noqa: BLE001
            r, exc = None, e
        if r is True:
            self.cur = {"cfg": c, "size": size, "req_mode": mode, "req_closure": closure, "pdus": [], "file": name}
            self.tx.append(self.cur)
        return r, exc

    def _collect(self, res):
        for p in res.out:
            raw = bytes(p.pack())
            self.stream.append(raw)
            if self.cur is not None:
                self.cur["pdus"].append(p)

    def adv(self, k):
        for _ in range(k):
            if self.rig.dead:
                return
            self._collect(self.rig.call(None))
            self._done_check()

    def _done_check(self):
        if self.h.state.name == "IDLE":
            self.cur = None

    def inbound_conf(self):
        c = self.cur["cfg"]
        conf = sim.pdu_conf_for(c, self.h.transaction_seq_num.value if len(self.h.transaction_seq_num) else 0)
        conf.trans_mode = self.h.pdu_conf.trans_mode
        return conf

    def finish(self):
        from cfdppy.handler.source import TransactionStep as T

        for _ in range(400):
            if self.rig.dead or self.h.state.name == "IDLE" or self.cur is None:
                break
            if self.h.step == T.WAITING_FOR_EOF_ACK:
                pdu = AckPdu(self.inbound_conf(), DirectiveType.EOF_PDU, ConditionCode.NO_ERROR, TransactionStatus.ACTIVE)
            elif self.h.step == T.WAITING_FOR_FINISHED:
                pdu = FinishedPdu(self.inbound_conf(), FinishedParams(ConditionCode.NO_ERROR, DeliveryCode.DATA_COMPLETE, FileStatus.FILE_RETAINED))
            else:
                pdu = None
            self._collect(self.rig.call(pdu))
        self._done_check()

    def cancel(self):
        if self.h.transaction_id is None:
            return
        r, res = self.rig.cancel()
        self._collect(res)
        self._done_check()


def evaluate(case):
    root = sim.proc_dir("c19")
    for name, size in FILES:
        p = root / name
        if size is None:
            if p.exists():
                os.remove(p)
        elif not p.exists() or p.stat().st_size != size:
            p.write_bytes(models.file_bytes({"pat": name.encode(), "size": size}))
    from cfdppy.exceptions import NoRemoteEntityCfgFound, SourceFileDoesNotExist

    prim = Driver(case, root)
    vs = []
    accepted_ops = []
    stats = {"accepted": 0, "busy_refused": 0, "missing_file": 0, "unknown_dest": 0, "cancelled": 0, "wrapped": 0, "internal_error": 0}
    trace = []
    for idx, op in enumerate(case["ops"]):
        if prim.rig.dead is not None:
            stats["internal_error"] = 1
            break
        kind = op[0]
        if kind == "put":
            _, di, fi, mode, closure = op
            busy = prim.h.state.name != "IDLE"
            snap = (prim.h.state, prim.h.step, prim.h.progress, sim.tid_plain(prim.h.transaction_id), prim.h.num_packets_ready)
            r, exc = prim.put(di, fi, mode, closure)
            trace.append(["put", di, FILES[fi][0], mode, closure, "busy" if busy else "idle", r if exc is None else type(exc).__name__])
            missing = FILES[fi][1] is None
            unknown = di >= len(prim.rcfgs)
            if busy:
                stats["busy_refused"] += 1
                if exc is not None or r is not False:
                    vs.append(verdict("busy-returns-false", f"C19/busy-put/{'raised-' + type(exc).__name__ if exc else 'returned-' + str(r)}", f"op {idx}: {exc!r}"))
                    break
                after = (prim.h.state, prim.h.step, prim.h.progress, sim.tid_plain(prim.h.transaction_id), prim.h.num_packets_ready)
                if after != snap:
                    vs.append(verdict("busy-unaffected", "C19/busy-put-changed-state", f"op {idx}: {snap} -> {after}"))
                    break
            elif missing or unknown:
                want = SourceFileDoesNotExist if missing else NoRemoteEntityCfgFound
                alt = NoRemoteEntityCfgFound if (missing and unknown) else want
                stats["missing_file" if missing else "unknown_dest"] += 1
                if not isinstance(exc, (want, alt)):
                    vs.append(verdict("documented-error", f"C19/invalid-put/{'missing-file' if missing else 'unknown-dest'}/{'returned-' + str(r) if exc is None else type(exc).__name__}", f"op {idx}: {exc!r}"))
                    break
                if prim.h.state.name != "IDLE":
                    vs.append(verdict("idle-after-invalid", f"C19/not-idle-after-invalid-put/{'missing-file' if missing else 'unknown-dest'}", f"op {idx}: state {prim.h.state}"))
                    break
            else:
                if exc is not None or r is not True:
                    vs.append(verdict("valid-accepted", f"C19/valid-put-refused/{'returned-' + str(r) if exc is None else type(exc).__name__}", f"op {idx}: {exc!r}"))
                    break
                stats["accepted"] += 1
                accepted_ops.append(op)
        elif kind == "adv":
            prim.adv(op[1])
            accepted_ops.append(op)
            trace.append(["adv", op[1], prim.h.step.name])
        elif kind == "finish":
            prim.finish()
            accepted_ops.append(op)
            trace.append(["finish", prim.h.step.name])
        elif kind == "cancel":
            if prim.h.transaction_id is not None:
                stats["cancelled"] += 1
            prim.cancel()
            accepted_ops.append(op)
            trace.append(["cancel", prim.h.step.name])
    if prim.rig.dead is not None:
        stats["internal_error"] = 1
    # ---- twin: same history without the refused requests
    if not vs and prim.rig.dead is None:
        twin = Driver(case, root)
        for op in accepted_ops:
            if twin.rig.dead is not None:
                break
            if op[0] == "put":
                twin.put(*op[1:])
            elif op[0] == "adv":
                twin.adv(op[1])
            elif op[0] == "finish":
                twin.finish()
            else:
                twin.cancel()
        if twin.stream != prim.stream:
            n = next((i for i, (a, b) in enumerate(zip(prim.stream, twin.stream)) if a != b), min(len(prim.stream), len(twin.stream)))
            vs.append(verdict("refused-requests-leave-no-trace", "C19/stream-differs-from-twin", f"first difference at PDU {n}: {len(prim.stream)} vs {len(twin.stream)} PDUs"))
        pi = [e for e in prim.rig.log if e[0] in ("ind", "fault")]
        ti = [e for e in twin.rig.log if e[0] in ("ind", "fault")]
        if not vs and pi != ti:
            vs.append(verdict("refused-requests-leave-no-trace", "C19/indications-differ-from-twin", f"{len(pi)} vs {len(ti)}"))
    # ---- parameterisation of accepted transactions
    if not vs:
        handed = prim.rig.seqp.handed_out
        started = [t for t in prim.tx if t["pdus"]]
        seen_ids = set()
        for i, t in enumerate(started):
            c = t["cfg"]
            want_mode = t["req_mode"] or c["mode"]
            want_closure = c["closure"] if t["req_closure"] is None else t["req_closure"]
            w = max(case["local"]["src_id"][0], c["dst_id"][0])
            derived = c["max_pkt"] - models.fd_overhead(w, c["seq_width"] // 8, c["pdu_crc"])
            eff = derived if c["max_seg"] is None else min(c["max_seg"], derived)
            md = t["pdus"][0]
            label = f"transaction {i} ({t['file']} -> entity {c['dst_id'][1]}, request mode {t['req_mode']} closure {t['req_closure']}, MIB {c['mode']}/{c['closure']})"
            if sim.pdu_kind(md) != "MD":
                vs.append(verdict("parameterisation", "C19/first-pdu-not-metadata", label))
                break
            for p in t["pdus"]:
                if p.transmission_mode != sim.MODES[want_mode]:
                    vs.append(verdict("mode-from-request-else-mib", f"C19/wrong-mode/req-{t['req_mode']}/mib-{c['mode']}", label))
                    break
                if p.dest_entity_id.value != c["dst_id"][1] or bool(p.pdu_header.crc_flag) != c["pdu_crc"]:
                    vs.append(verdict("parameterisation", "C19/wrong-destination-or-crc-flag", label))
                    break
            if vs:
                break
            if bool(md.closure_requested) != want_closure:
                vs.append(verdict("closure-from-request-else-mib", f"C19/wrong-closure/req-{t['req_closure']}/mib-{c['closure']}", label))
                break
            fds = [p for p in t["pdus"] if sim.pdu_kind(p) == "FD"]
            bad = [len(p.file_data) for j, p in enumerate(fds) if len(p.file_data) > eff or (len(p.file_data) != eff and p.offset + len(p.file_data) < t["size"])]
            if bad:
                vs.append(verdict("segment-length", f"C19/wrong-segment-length/{'configured' if c['max_seg'] is not None and c['max_seg'] <= derived else 'derived'}", f"{label}: lengths {bad[:4]} expected {eff} (configured {c['max_seg']}, derived {derived})"))
                break
            seq = md.transaction_seq_num.value
            if i >= len(handed) or seq != handed[i]:
                vs.append(verdict("sequence-number", "C19/sequence-number-not-next-provider-value", f"{label}: {seq}, provider handed out {handed[: i + 2]}"))
                break
            if any(p.transaction_seq_num.value != seq for p in t["pdus"]):
                vs.append(verdict("sequence-number", "C19/sequence-number-changes-within-transaction", label))
                break
            if seq in seen_ids and len(started) <= (1 << case["local"]["seq_width"]):
                vs.append(verdict("sequence-number", "C19/transaction-id-reused", f"{label}: {seq}"))
                break
            seen_ids.add(seq)
            if i and seq < handed[i - 1]:
                stats["wrapped"] = 1
        if not vs and len(handed) != len(started):
            vs.append(verdict("sequence-number", "C19/provider-called-unexpectedly", f"{len(handed)} values handed out for {len(started)} started transactions"))
    refused = stats["busy_refused"] + stats["missing_file"] + stats["unknown_dest"]
    nt = refused >= 1 and stats["accepted"] >= 2
    classes = [k for k, v in stats.items() if v]
    return Result(vs, nt, classes, {"trace": trace[:25], "stats": stats})


def replay(case):
    return evaluate(case).verdicts


PARAMS = {"quick": 1200, "thorough": 20000}


def shard(ctx):
    out = Out()
    hyp_search(out, ctx["known"], case_strategy(), evaluate, PARAMS[ctx["tier"]], ctx["seed"])
    sim.cleanup_sandbox()
    from .. import fuzz

    fuzz.thorough_stage("C19", ctx, out)
    return out


def selftest(merged, tier):
    c = merged["classes"]
    for k in ("accepted", "busy_refused", "missing_file", "unknown_dest", "cancelled", "wrapped"):
        if c.get(k, 0) < 20:
            return f"class {k} nearly empty: {c.get(k, 0)}"
    return None
