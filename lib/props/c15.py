"""C15 - user indications are faithful, causally ordered and gated by configuration."""
from __future__ import annotations

from hypothesis import strategies as st
from spacepackets.cfdp import ConditionCode, TransactionId
from spacepackets.cfdp.pdu.finished import DeliveryCode, FileStatus, FinishedParams
from spacepackets.cfdp.lv import CfdpLv
from spacepackets.cfdp.tlv import OriginatingTransactionId, ProxyPutRequest, ProxyPutRequestParams, ProxyPutResponse, ProxyPutResponseParams
from spacepackets.util import UnsignedByteField

from .. import models, sim
from .. import strategies as S
from ..core import Out, Result, hyp_search, verdict

ID = "C15"
LEVEL = "exploration"
TECHNIQUE = (
    "Hypothesis-generated transfers (nominal, link faults, cancels; both modes; all 2^4 x 2^4 indication switch settings; message-to-user lists with "
    "reserved CFDP messages) through the two-entity simulator; the indications of every state-machine call are compared with what an independent "
    "builder derives from the PDUs inserted into and emitted by that call"
)
LEVEL_TEXT = (
    "For every call of either handler the indications issued during that call are related to the PDU inserted and the PDUs emitted: disabled kinds "
    "never occur; with the switch on there is one EOF-Sent per EOF PDU emitted, one File-Segment-Recv (offset, length of that PDU) per File Data PDU "
    "accepted in a receiving step, an EOF-Recv for the accepted EOF, one Metadata-Recv (names, size, source id, user messages of that Metadata PDU) "
    "per transaction before any File-Segment-Recv, a Transaction indication first (with the originating transaction id unless a proxy put response "
    "is present), and Transaction-Finished last, carrying the parameters of the Finished PDU received (sender) or emitted for that completion "
    "(receiver); every indication carries the transaction id of the PDUs."
)
LEVEL_NOTE = (
    "Sampled. 'Accepted' is decided from the handler's public step before the call (File Data: receiving / check-limit / waiting-for-missing-data "
    "steps; EOF: first EOF of a transaction) and a normal return. Not demanded (statement silent): a sender-side Transaction-Finished for cancelled "
    "unacknowledged or abandoned transactions; an EOF-Recv for re-sent EOF PDUs."
)
RULE = (
    "case = configuration (incl. 4+4 indication switches) + file + fault schedule + optional cancel + message-to-user specs. Non-trivial: at least one "
    "switch off and one on (per case), and the transfer has >= 2 segments or a fault / cancel was applied. Distinct = distinct (switches, mode, "
    "closure, size class, faults, injection, message kinds)."
)
ASSUMPTIONS = [
    "at most one originating-transaction-id message per request (which of several would be surfaced is not specified)",
    "message-to-user payloads as in C02 (spacepackets UnicodeDecodeError quirk avoided)",
]

RECV_STEPS = {"RECEIVING_FILE_DATA", "RECV_FILE_DATA_WITH_CHECK_LIMIT_HANDLING", "WAITING_FOR_MISSING_DATA"}


def build_msgs(specs):
    """-> (payload list | None, originating id expected at the sender's user | None)"""
    if specs is None:
        return None, None
    out = []
    orig = None
    put_response = False
    for sp in specs:
        k = sp[0]
        if k == "raw":
            out.append(bytes(sp[1]))
        elif k == "orig":
            tid = TransactionId(UnsignedByteField(sp[2], sp[1]), UnsignedByteField(sp[4], sp[3]))
            out.append(bytes(OriginatingTransactionId(tid).to_generic_msg_to_user_tlv().value))
            orig = (sp[2], sp[4])
        elif k == "put_response":
            p = ProxyPutResponseParams(ConditionCode(sp[1]), DeliveryCode(sp[2]), FileStatus(sp[3]))
            out.append(bytes(ProxyPutResponse(p).to_generic_msg_to_user_tlv().value))
            put_response = True
        elif k == "put_request":
            # another reserved proxy message; it is not a proxy put *response*, so it does not hide the originating id
            p = ProxyPutRequestParams(UnsignedByteField(sp[1], 1), CfdpLv(b"/a/src"), CfdpLv(b"/b/dst"))
            out.append(bytes(ProxyPutRequest(p).to_generic_msg_to_user_tlv().value))
    return out, (None if put_response else orig)


@st.composite
def msg_specs(draw):
    if draw(st.integers(0, 2)) == 0:
        return None
    n = draw(st.integers(0, 3))
    specs = []
    has_orig = False
    for _ in range(n):
        k = draw(st.sampled_from(["raw", "raw", "orig", "orig", "put_response", "put_request"]))
        if k == "orig" and has_orig:
            k = "raw"
        if k == "raw":
            specs.append(["raw", draw(S.user_messages())])
        elif k == "orig":
            has_orig = True
            ew, sw = draw(st.sampled_from([1, 2, 4])), draw(st.sampled_from([1, 2, 4]))
            specs.append(["orig", ew, draw(st.integers(0, (1 << (8 * ew)) - 1)), sw, draw(st.integers(0, (1 << (8 * sw)) - 1))])
        elif k == "put_request":
            specs.append(["put_request", draw(st.integers(0, 255))])
        else:
            specs.append(["put_response", draw(st.sampled_from([0, 4, 15])), draw(st.integers(0, 1)), draw(st.integers(0, 3))])
    return specs


@st.composite
def case_strategy(draw):
    cfg = draw(S.cfgs(vary_limits=True, max_limit=3, vary_indications=True))
    f = draw(S.file_specs(cfg, max_bytes=900, max_segments=10, allow_none=True))
    case = {"cfg": cfg, "file": f, "msg_specs": draw(msg_specs())}
    if draw(st.integers(0, 1)):
        case["faults"] = draw(S.fault_schedules(max_faults=4, actions=("drop", "drop", "dup", "delay", "hold")))
    if draw(st.integers(0, 3)) == 0:
        case["inject"] = [[draw(st.sampled_from(["src", "dst"])), draw(st.integers(1, 14)), "cancel", True]]
    if draw(st.integers(0, 4)) == 0:
        case["pacing"] = draw(S.pacing_scripts(max_len=16))
    if f is not None and draw(st.integers(0, 4)) == 0:
        case["dest_kind"] = draw(st.sampled_from(["dir", "existing", "dir_existing"]))
    if draw(st.integers(0, 3)) == 0:
        # the same handler objects first carried another transfer (its indications must not leak into this one)
        case["before"] = {
            "file": draw(S.file_specs(cfg, max_bytes=300, max_segments=6, allow_none=True)),
            "req_mode": draw(st.sampled_from([None, "ACK", "NAK"])), "req_closure": draw(st.sampled_from([None, True, True, False])),
            "faults": draw(S.fault_schedules(max_faults=2, actions=("drop", "dup", "delay"))),
        }
    return case


def _segments(log):
    """Split a side's events into per-call segments: (call event | inject marker, [indications], [emitted pdus])."""
    segs = {"src": [], "dst": []}
    cur = {"src": None, "dst": None}
    for e in log:
        k = e[0]
        if k == "call":
            cur[e[1]] = {"call": e, "inds": [], "out": [], "exc": None, "inject": False}
            segs[e[1]].append(cur[e[1]])
        elif k == "inject_begin" and e[2] == "cancel":
            cur[e[1]] = {"call": None, "inds": [], "out": [], "exc": None, "inject": True}
            segs[e[1]].append(cur[e[1]])
        elif k == "ind" and e[1] in cur:
            if cur[e[1]] is None:
                cur[e[1]] = {"call": None, "inds": [], "out": [], "exc": None, "inject": False}
                segs[e[1]].append(cur[e[1]])
            cur[e[1]]["inds"].append(e)
        elif k == "emit" and cur.get(e[1]) is not None:
            cur[e[1]]["out"].append(e[3])
        elif k == "exc" and cur.get(e[1]) is not None and cur[e[1]]["exc"] is None:
            cur[e[1]]["exc"] = e
    return segs


def evaluate(case):
    cfg = sim.norm_cfg(case["cfg"])
    mode, closure = sim.eff_mode(cfg), sim.eff_closure(cfg)
    msgs, want_orig = build_msgs(case.get("msg_specs"))
    run_case = dict(case)
    run_case["msgs"] = msgs
    sess = None
    after_history = False
    if case.get("before"):
        sim.install_clock()
        sim.CLOCK.reset()
        sess = sim.Session(cfg, "t")
        b = case["before"]
        c0 = dict(cfg)
        c0["req_mode"], c0["req_closure"] = b.get("req_mode"), b.get("req_closure")
        ps = sim.Sim({"cfg": c0, "file": b["file"], "faults": b.get("faults")}, session=sess, fresh_clock=False)
        ps.run(max_steps=4000, max_ticks=40)
        if ps.outcome != "done" or ps.src.internal_error or ps.dst.internal_error:
            sess.close()
            return Result([], False, ["earlier-transfer-did-not-end"], {})
        after_history = True
    s = sim.Sim(run_case, session=sess, fresh_clock=sess is None)
    vs = []

    def bad(clause, sig, detail=""):
        if len(vs) < 4:
            vs.append(verdict(clause, f"C15/{sig}", detail))

    try:
        s.run(max_steps=5000, max_ticks=40)
        log = s.tlog
        segs = _segments(log)
        sw_src = dict(zip(["eof_sent", "eof_recv", "segment_recv", "finished"], cfg["ind_src"]))
        sw_dst = dict(zip(["eof_sent", "eof_recv", "segment_recv", "finished"], cfg["ind_dst"]))
        src_tid = None
        for e in log:
            if e[0] == "emit" and e[1] == "src":
                src_tid = sim.tid_of(e[3])
                break
        internal = bool(s.excs(library=False))
        # ---------------- sender
        src_inds = [e for sg in segs["src"] for e in sg["inds"]]
        names = [e[2] for e in src_inds]
        for e in src_inds:
            if e[2] in sw_src and not sw_src[e[2]]:
                bad("gating", f"src/disabled-indication-delivered/{e[2]}", str(e[3]))
            if src_tid is not None and e[3].get("tid") != src_tid:
                bad("transaction-id", f"src/indication-transaction-id/{e[2]}", f"{e[3].get('tid')} vs PDUs {src_tid}")
        if src_tid is not None:
            if names.count("transaction") != 1 or names[0] != "transaction":
                bad("order", "src/transaction-indication-not-first-or-not-once", str(names[:6]))
            else:
                got = src_inds[0][3].get("orig")
                if got != want_orig:
                    bad("originating-id", f"src/originating-id/{'put-response' if want_orig is None and got is not None else 'wrong'}", f"got {got} want {want_orig}; specs {case.get('msg_specs')}")
        accepted_fin = None
        for sg in segs["src"]:
            n_eof = sum(1 for p in sg["out"] if sim.pdu_kind(p) == "EOF")
            n_ind = sum(1 for e in sg["inds"] if e[2] == "eof_sent")
            if sw_src["eof_sent"] and n_ind != n_eof and not internal:
                bad("eof-sent-per-eof", f"src/eof-sent-count/{n_ind}-for-{n_eof}-eof-pdus", f"call {sg['call'][2] if sg['call'] else 'inject'}")
            c = sg["call"]
            if c is not None and c[3] == "FIN" and sg["exc"] is None and (
                any(sim.pdu_kind(p) == "ACK_FIN" for p in sg["out"]) if mode == "ACK" else any(e[2] == "finished" for e in sg["inds"])
            ):
                # accepted: the sender acknowledged it (acknowledged mode) or completed on it (closure)
                accepted_fin = sim.fin_plain(c[5].finished_params)
            for e in sg["inds"]:
                if e[2] == "finished":
                    d = {k: e[3][k] for k in ("cond", "delivery", "status")}
                    if accepted_fin is not None:
                        w = {k: accepted_fin[k] for k in ("cond", "delivery", "status")}
                        if d != w:
                            bad("finished-matches-pdu", "src/finished-indication-differs-from-finished-pdu", f"indication {d} PDU {w}")
                    elif closure:
                        bad("finished-matches-pdu", "src/finished-indication-without-finished-pdu", f"{d}")
                    elif d != {"cond": 0, "delivery": 0, "status": 3}:
                        bad("finished-matches-pdu", "src/synthetic-finished-indication", f"{d}")
        if names.count("finished") > 1:
            bad("order", "src/finished-indication-twice", str(names))
        if "finished" in names and names[-1] != "finished":
            bad("order", "src/indication-after-finished", str(names))
        if accepted_fin is not None and sw_src["finished"] and s.src.idle() and "finished" not in names and not internal:
            aborted = any(e[0] == "fault" and e[1] == "src" and e[2] == "ABANDON" for e in log)
            if not aborted:
                bad("finished-delivered", "src/no-finished-indication-after-finished-pdu", f"{accepted_fin}")
        # ---------------- receiver
        md_seen = False
        fin_last = None
        seg_before_md = False
        dst_names = []
        first_eof_done = False
        for sg in segs["dst"]:
            c = sg["call"]
            kind = None if c is None else c[3]
            pdu = None if c is None else c[5]
            step = None if c is None else c[4]
            ok = sg["exc"] is None
            if step == "IDLE" and kind in ("MD", "FD", "EOF"):
                md_seen = False
                first_eof_done = False
                fin_last = None
            for e in sg["inds"]:
                dst_names.append(e[2])
                if e[2] in sw_dst and not sw_dst[e[2]]:
                    bad("gating", f"dst/disabled-indication-delivered/{e[2]}", str(e[3]))
                if pdu is not None and e[3].get("tid") != sim.tid_of(pdu):
                    bad("transaction-id", f"dst/indication-transaction-id/{e[2]}", f"{e[3].get('tid')} vs PDU {sim.tid_of(pdu)}")
                elif pdu is None and src_tid is not None and e[3].get("tid") != src_tid:
                    bad("transaction-id", f"dst/indication-transaction-id/{e[2]}", f"{e[3].get('tid')} vs PDUs {src_tid}")
            mds = [e for e in sg["inds"] if e[2] == "metadata_recv"]
            sgs = [e for e in sg["inds"] if e[2] == "segment_recv"]
            eofs = [e for e in sg["inds"] if e[2] == "eof_recv"]
            fins = [e for e in sg["inds"] if e[2] == "finished"]
            if mds:
                if kind != "MD" or len(mds) != 1:
                    bad("metadata-recv-faithful", "dst/metadata-recv-without-metadata-pdu", f"call input {kind}")
                else:
                    d = mds[0][3]
                    pm = None
                    opts = pdu.options_as_tlv()
                    if opts is not None:
                        pm = [bytes(t.value).hex() for t in opts if int(t.tlv_type) == 2]
                    want = {
                        "size": None if pdu.source_file_name is None else pdu.file_size,
                        "src": pdu.source_file_name, "dst": pdu.dest_file_name, "source_id": pdu.source_entity_id.value,
                    }
                    got = {k: d[k] for k in want}
                    if got != want:
                        bad("metadata-recv-faithful", "dst/metadata-recv-fields", f"got {got} want {want}")
                    elif (d["msgs"] or []) != (pm or []):
                        bad("metadata-recv-faithful", "dst/metadata-recv-messages", f"got {d['msgs']} want {pm}")
                    if md_seen:
                        bad("order", "dst/metadata-recv-twice", "")
                    md_seen = True
            elif kind == "MD" and ok and step in ("IDLE", "WAITING_FOR_METADATA") and not md_seen and not internal:
                bad("metadata-recv-delivered", f"dst/no-metadata-recv/{step}", "")
            if sgs:
                if kind != "FD" or len(sgs) != 1 or (sgs[0][3]["off"], sgs[0][3]["len"]) != (pdu.offset, len(pdu.file_data)):
                    bad("segment-recv-faithful", "dst/segment-recv-does-not-match-pdu", f"input {kind} {None if kind != 'FD' else (pdu.offset, len(pdu.file_data))} indication {[x[3] for x in sgs]}")
                if not md_seen:
                    bad("order", "dst/segment-recv-before-metadata-recv", "")
            elif kind == "FD" and ok and step in RECV_STEPS and sw_dst["segment_recv"] and not internal:
                bad("segment-recv-delivered", f"dst/no-segment-recv/{step}", f"FD {pdu.offset}+{len(pdu.file_data)}")
            if eofs:
                if kind != "EOF" or len(eofs) != 1:
                    bad("eof-recv-faithful", "dst/eof-recv-without-eof-pdu", f"input {kind}")
                first_eof_done = True
            elif kind == "EOF" and ok and sw_dst["eof_recv"] and not first_eof_done and int(pdu.condition_code) == 0 and step in ("IDLE", "RECEIVING_FILE_DATA", "WAITING_FOR_METADATA", "RECV_FILE_DATA_WITH_CHECK_LIMIT_HANDLING") and not internal:
                bad("eof-recv-delivered", f"dst/no-eof-recv/{step}", "")
                first_eof_done = True
            for e in fins:
                fin_last = {k: e[3][k] for k in ("cond", "delivery", "status")}
            for p in sg["out"]:
                if sim.pdu_kind(p) == "FIN" and sw_dst["finished"]:
                    d = sim.fin_plain(p.finished_params)
                    d = {k: d[k] for k in ("cond", "delivery", "status")}
                    if fin_last is None:
                        bad("finished-matches-pdu", "dst/finished-pdu-without-finished-indication", f"{d}")
                    elif d != fin_last:
                        bad("finished-matches-pdu", "dst/finished-pdu-differs-from-indication", f"PDU {d} indication {fin_last}")
        # completion order at the receiver: nothing but further Transaction-Finished (re-completion after a cancel) follows the first one
        if "finished" in dst_names:
            i = dst_names.index("finished")
            tail = [n for n in dst_names[i + 1 :] if n not in ("finished",)]
            # a new transaction may follow only if the handler went idle; transfers of this check are single transactions
            if tail and not any(e[0] == "entity_drop" for e in log):
                bad("order", f"dst/indication-after-finished/{tail[0]}", str(dst_names))
        applied = len(s.link.applied) + sum(1 for e in log if e[0] == "inject" and e[4] is True)
        size = 0 if s.content is None else len(s.content)
        seg = S.eff_seg_len(cfg)
        sw = cfg["ind_src"] + cfg["ind_dst"]
        nt = (not all(sw)) and any(sw) and (size > seg or applied >= 1)
        kinds = sorted({sp[0] for sp in (case.get("msg_specs") or [])})
        classes = [f"mode:{mode}", "closure" if closure else "noclosure", f"outcome:{s.outcome}"]
        classes += [f"off:{n}" for n, on in list(sw_src.items())[:1] + list(sw_dst.items())[1:] if not on]
        if not sw_src["finished"]:
            classes.append("off:src-finished")
        if applied:
            classes.append("fault-or-cancel")
        for k in kinds:
            classes.append(f"msg:{k}")
        if case.get("msg_specs") == []:
            classes.append("msg:empty-list")
        if case.get("msg_specs") is None:
            classes.append("msg:none")
        if internal:
            classes.append("aborted-by-internal-error")
        if after_history:
            classes.append("after-earlier-transfer")
        key = (tuple(sw), mode, closure, S.size_class(None if s.content is None else size, seg), str(case.get("faults")), str(case.get("inject")), tuple(kinds), str(case.get("before")))
        summ = sim.summarize(s)
        summ["src_indications"] = names[:12]
        summ["dst_indications"] = dst_names[:20]
        return Result(vs, nt, classes, summ, nt_key=key)
    finally:
        s.close()
        if sess is not None:
            sess.close()


def replay(case):
    return evaluate(case).verdicts


PARAMS = {"quick": 1200, "thorough": 20000}


def shard(ctx):
    out = Out()
    hyp_search(out, ctx["known"], case_strategy(), evaluate, PARAMS[ctx["tier"]], ctx["seed"])
    sim.cleanup_sandbox()
    return out


def selftest(merged, tier):
    c = merged["classes"]
    for k in ("mode:ACK", "mode:NAK", "off:eof_sent", "off:eof_recv", "off:segment_recv", "off:finished", "off:src-finished", "fault-or-cancel", "msg:orig", "msg:put_response", "msg:raw", "msg:none", "closure"):
        if c.get(k, 0) < 20:
            return f"class {k} nearly empty: {c.get(k, 0)}"
    return None
