"""C18 - lost-segment bookkeeping refines an exact interval set.

Oracle: IntervalSet reference model. Exhaustive enumeration of all in-domain histories over small
offsets plus Hypothesis-generated histories over offsets up to 2^32 (DESIGN.md 4/C18).
"""
from __future__ import annotations

from hypothesis import strategies as st

from ..core import Out, Result, enum_search, hyp_search, verdict
from ..models import IntervalSet

ID = "C18"
LEVEL = "exploration"
TECHNIQUE = "complete enumeration of small histories + Hypothesis model-based histories against an interval-set reference model"
LEVEL_TEXT = (
    "Every in-domain operation history over offsets 0..5 (0..6 thorough) up to depth 4 (5) is executed "
    "and compared step by step with an independent interval-set model; larger offsets and 60-step "
    "histories are sampled with Hypothesis. Exhaustive within the small bounds, sampled beyond."
)
LEVEL_NOTE = "Trusts the IntervalSet model in lib/models.py and the reading of the domain given in the evidence assumptions."
RULE = (
    "histories of add(disjoint non-empty range) / remove(range inside one tracked range, touching "
    "none, or straddling the end of one) / coalesce on cfdppy.handler.dest.LostSegmentTracker, "
    "checked after every step against an IntervalSet model; exhaustive over offsets 0..N to depth D "
    "(every in-domain operation at every step), plus Hypothesis histories (<=60 steps, offsets < 2^32) "
    "built constructively from the current ranges. Non-trivial: the history contains a split "
    "(removal strictly inside a range) followed by a removal hitting one of the pieces, or a coalesce "
    "that merges >=2 adjacent ranges, or a refused straddling removal. Distinct = distinct history."
)
ASSUMPTIONS = [
    "domain as in the statement: added ranges are non-empty and disjoint from the tracked set; "
    "removals lie within one reported range, touch none, or start inside a reported range and end "
    "beyond it (must be refused); other removals (straddling a start, spanning several ranges) are "
    "outside the domain and not generated",
    "'tracked range' is read as a range reported by the tracker (adjacent ranges are separate until "
    "coalesced)",
]
BIG = 1 << 32


def _tracker():
    from cfdppy.handler.dest import LostSegmentTracker

    return LostSegmentTracker()


def _reported(t):
    return list(t.lost_segments.items())


def _check_shape(t, model: IntervalSet, where):
    rep = _reported(t)
    for s, e in rep:
        if not (isinstance(s, int) and isinstance(e, int)) or e <= s:
            return verdict("no-empty-range", "C18/empty-or-inverted-range", f"{where}: {rep}")
    for (s1, e1), (s2, e2) in zip(rep, rep[1:]):
        if s2 <= s1:
            return verdict("ascending", "C18/not-ascending", f"{where}: {rep}")
        if s2 < e1:
            return verdict("disjoint", "C18/overlapping-ranges", f"{where}: {rep}")
    if IntervalSet(rep) != model:
        return verdict("denotes-set", "C18/set-differs", f"{where}: reported {rep} model {model.r}")
    if t.num_lost_segments != len(rep):
        return verdict("denotes-set", "C18/count-differs", f"{where}: {t.num_lost_segments} vs {rep}")
    return None


def _classify(rep, s, e):
    """in: within one reported range; none: touches no tracked byte; straddle: starts inside a
    reported range and ends beyond it; else None (outside the domain)."""
    if e == s:
        return "none_empty"
    for a, b in rep:
        if a <= s and e <= b:
            return "in"
    if not any(a < e and s < b for a, b in rep):
        return "none"
    for a, b in rep:
        if a <= s < b and e > b:
            return "straddle"
    return None


def _resolve(op, rep):
    """Turn an abstract selector op into a concrete op against the reported ranges."""
    kind = op[0]
    if kind in ("add", "rm", "co"):
        return op
    if kind == "sel_add":
        _, i, x, y, snapl, snapr = op
        gaps = IntervalSet(rep).complement(0, BIG).r
        if not gaps:
            return None
        a, b = gaps[i % len(gaps)]
        s = a if snapl else a + x % (b - a)
        e = b if snapr else s + 1 + y % (b - s)
        return ("add", s, e)
    if kind == "sel_rm_in":
        _, i, x, y, snapl, snapr = op
        if not rep:
            return None
        a, b = rep[i % len(rep)]
        s = a if snapl else a + x % (b - a)
        e = b if snapr else s + 1 + y % (b - s)
        return ("rm", s, e)
    if kind == "sel_rm_none":
        _, i, x, y, snapl, snapr = op
        gaps = IntervalSet(rep).complement(0, BIG).r
        if not gaps:
            return None
        a, b = gaps[i % len(gaps)]
        s = a if snapl else a + x % (b - a)
        e = b if snapr else s + y % (b - s + 1)
        return ("rm", s, e)
    if kind == "sel_rm_straddle":
        _, i, x, y, _, _ = op
        if not rep:
            return None
        a, b = rep[i % len(rep)]
        s = a + x % (b - a)
        e = b + 1 + y % 8
        return ("rm", s, min(e, BIG + 8))
    raise ValueError(op)


def run_history(ops, keep_going=False):
    """Interpret a history. Returns (verdicts, facts)."""
    t = _tracker()
    model = IntervalSet()
    facts = {"split": False, "piece_rm": False, "merge": False, "refused": False, "steps": 0}
    pieces = set()  # starts/ends produced by splits
    concrete = []
    for idx, op in enumerate(ops):
        rep = _reported(t)
        op = _resolve(tuple(op), rep)
        if op is None:
            continue
        concrete.append(op)
        where = f"step {idx} {op}"
        if op[0] == "add":
            _, s, e = op
            if e <= s or model.intersects(s, e):
                continue  # outside the domain
            try:
                t.add_lost_segment((s, e))
            except Exception as ex:  # noqa: BLE001
                return [verdict("add", f"C18/add-raised/{type(ex).__name__}", f"{where}: {ex!r}")], facts
            model.add(s, e)
        elif op[0] == "rm":
            _, s, e = op
            cls = _classify(rep, s, e)
            if cls is None:
                continue
            before = dict(t.lost_segments)
            try:
                r = t.remove_lost_segment((s, e))
                raised = None
            except ValueError as ex:
                r, raised = None, ex
            except Exception as ex:  # noqa: BLE001
                return [verdict("remove", f"C18/remove-raised/{type(ex).__name__}", f"{where}: {ex!r}")], facts
            if cls == "straddle":
                facts["refused"] = True
                if raised is None:
                    return [verdict("straddle-refused", "C18/straddle-not-refused", f"{where}: returned {r!r}, ranges {rep}")], facts
                if list(t.lost_segments.items()) != list(before.items()):
                    return [verdict("straddle-refused", "C18/straddle-changed-state", f"{where}: {before} -> {dict(t.lost_segments)}")], facts
            else:
                if raised is not None:
                    return [verdict("remove", "C18/in-domain-remove-refused", f"{where} class {cls}: {raised!r}, ranges {rep}")], facts
                changes = cls == "in"
                if cls == "in":
                    for a, b in rep:
                        if a <= s and e <= b:
                            if a < s and e < b:
                                facts["split"] = True
                                pieces.update({(a, s), (e, b)})
                            elif facts["split"] and any(p[0] <= s and e <= p[1] for p in pieces):
                                facts["piece_rm"] = True
                    model.remove(s, e)
                if bool(r) != changes or not isinstance(r, bool):
                    return [verdict("remove-reports-change", "C18/remove-return-value", f"{where} class {cls}: returned {r!r}, ranges {rep}")], facts
        elif op[0] == "co":
            nadj = sum(1 for (s1, e1), (s2, e2) in zip(rep, rep[1:]) if e1 == s2)
            try:
                t.coalesce_lost_segments()
            except Exception as ex:  # noqa: BLE001
                return [verdict("coalesce", f"C18/coalesce-raised/{type(ex).__name__}", f"{where}: {ex!r}")], facts
            after = _reported(t)
            if nadj:
                facts["merge"] = True
            if any(e1 == s2 for (s1, e1), (s2, e2) in zip(after, after[1:])):
                return [verdict("coalesce-no-adjacent", "C18/coalesce-left-adjacent", f"{where}: {rep} -> {after}")], facts
        facts["steps"] += 1
        v = _check_shape(t, model, where)
        if v:
            return [v], facts
    facts["concrete"] = concrete
    return [], facts


def evaluate(case):
    verdicts, facts = run_history(case["ops"])
    nt = (facts["split"] and facts["piece_rm"]) or facts["merge"] or facts["refused"]
    classes = [k for k in ("split", "piece_rm", "merge", "refused") if facts[k]]
    return Result(verdicts, nt, classes, {"steps": facts["steps"], "concrete_ops": facts.get("concrete", [])[:12]})


def replay(case):
    return evaluate(case).verdicts


# ---------------------------------------------------------------- exhaustive tier
def _all_ops(rep, n):
    ops = [("co",)]
    model = IntervalSet(rep)
    for s in range(n + 1):
        for e in range(s, n + 2):
            if e > s and e <= n and not model.intersects(s, e):
                ops.append(("add", s, e))
            if e <= n + 1 and _classify(rep, s, e) is not None:
                ops.append(("rm", s, e))
    return ops


def _enumerate(n, depth, shard, nshards):
    """All in-domain histories up to `depth` (each once), split over shards by the first two ops."""
    if shard == 0:
        yield []
    idx = 0
    for op1 in _all_ops([], n):
        if shard == 0:
            yield [op1]
        if depth < 2:
            continue
        t = _tracker()
        _apply_quiet(t, op1)
        for op2 in _all_ops(_reported(t), n):
            idx += 1
            if idx % nshards == shard:
                yield from _dfs([op1, op2], n, depth)


def _apply_quiet(t, op):
    try:
        if op[0] == "add":
            t.add_lost_segment((op[1], op[2]))
        elif op[0] == "rm":
            t.remove_lost_segment((op[1], op[2]))
        else:
            t.coalesce_lost_segments()
    except ValueError:
        pass


def _dfs(prefix, n, depth):
    yield list(prefix)
    if len(prefix) >= depth:
        return
    t = _tracker()
    for op in prefix:
        _apply_quiet(t, op)
    for op in _all_ops(_reported(t), n):
        yield from _dfs(prefix + [op], n, depth)


# ---------------------------------------------------------------- Hypothesis tier
def _op_strategy():
    sel = st.tuples(
        st.sampled_from(["sel_add", "sel_add", "sel_add", "sel_rm_in", "sel_rm_in", "sel_rm_none", "sel_rm_straddle"]),
        st.integers(0, 7),
        st.one_of(st.integers(0, 16), st.integers(0, BIG)),
        st.one_of(st.integers(0, 16), st.integers(0, BIG)),
        st.booleans(),
        st.booleans(),
    )
    return st.one_of(sel, sel, sel, sel, st.just(("co",)))


def case_strategy():
    return st.fixed_dictionaries({"ops": st.lists(_op_strategy(), min_size=1, max_size=60)})


PARAMS = {"quick": {"n": 5, "depth": 4, "hyp": 1500}, "thorough": {"n": 6, "depth": 5, "hyp": 40000}}


def shard(ctx):
    out = Out()
    p = PARAMS[ctx["tier"]]
    cases = ({"ops": h} for h in _enumerate(p["n"], p["depth"], ctx["shard"], ctx["nshards"]))
    enum_search(out, ctx["known"], cases, evaluate)
    out.extra["exhaustive_histories"] = out.evaluations
    out.exhaustive = False  # the Hypothesis part below is sampled
    hyp_search(out, ctx["known"], case_strategy(), evaluate, p["hyp"], ctx["seed"])
    out.extra["exhaustive_part"] = f"all in-domain histories, offsets 0..{p['n']}, depth <= {p['depth']}"
    from .. import fuzz

    fuzz.thorough_stage("C18", ctx, out)
    return out


def selftest(merged, tier):
    c = merged["classes"]
    for k in ("split", "piece_rm", "merge", "refused"):
        if c.get(k, 0) < 50:
            return f"class {k} nearly empty: {c.get(k, 0)}"
    return None
