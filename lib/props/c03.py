"""C03 - acknowledged mode recovers from bounded loss, duplication and reordering."""
from __future__ import annotations

import itertools

from hypothesis import strategies as st

from .. import models, sim
from .. import strategies as S
from ..core import Out, Result, enum_search, hyp_search, verdict

ID = "C03"
LEVEL = "fault_enumeration"
TECHNIQUE = "complete enumeration of all fault sets of size <= 2 (drop/dup/delay/hold on every PDU of either direction, second fault placed on the faulted run's own PDU sequence) on small files, plus Hypothesis-sampled schedules with 3-5 faults; bounded-liveness oracle under a harness-owned clock"
LEVEL_TEXT = (
    "For sizes {0, 1, seg, seg+1, 2*seg+1} x {immediate, deferred NAK} x {closure off, on} every single fault and every pair of faults over the PDUs "
    "actually emitted (including retransmissions, NAKs and re-sent EOF/Finished PDUs of the faulted run) is executed with all limits = 3; larger files "
    "and 3-5 faults with limits K+1..K+3, varied intervals, pacing and exact-expiry races are sampled. Each run must end, within 4*(K+2) timer "
    "expiries after the last fault, with an identical file, a successful Transaction-Finished indication on both sides and both handlers idle."
)
LEVEL_NOTE = (
    "Exhaustive for |F| <= 2 on the listed small configurations, sampled beyond. Assumes the entity layer of the simulator (answers EOF / Finished PDUs of "
    "transactions its handler already closed), as the statement says. Liveness is decided in its bounded form."
)
RULE = (
    "exhaustive part: configuration x fault set F (|F| <= 2) with faults keyed by (PDU kind, occurrence) x action in {drop, dup, delay 3 PDUs, hold 1 "
    "expiry}; sampled part: configuration + file (<= 40 segments) + 3-5 faults + pacing. Non-trivial: at least one fault was actually applied. "
    "Distinct: exhaustive cases are distinct by construction, sampled ones by (configuration, schedule) hash."
)
ASSUMPTIONS = [
    "every expiration limit (positive ACK, NAK) is K+1 or more, K = number of faults in the schedule",
    "the link is quiet after the scheduled faults; timers keep expiring (the harness advances the clock to the next pending expiry when nothing is in flight)",
    "PDUs of a transaction the addressed handler already closed are answered by the entity (ACK of EOF / of Finished with status TERMINATED)",
]

SEG = 8
SIZES = [0, 1, SEG, SEG + 1, 2 * SEG + 1]
ACTIONS = [("drop", 0), ("dup", 0), ("delay", 3), ("hold", 1)]


def base_cfg(immediate, closure, k):
    return {
        "mode": "ACK",
        "closure": closure,
        "immediate_nak": immediate,
        "max_seg": SEG,
        "max_pkt": 64,
        "ack_limit": k + 1,
        "nak_limit": k + 1,
        "ack_ms": 1000,
        "nak_ms": 700,
        "crc_type": "CRC_32",
    }


def run_case(case, k):
    cfg = sim.norm_cfg(case["cfg"])
    s = sim.Sim(case)
    try:
        bound = 4 * (k + 2)
        s.run(max_steps=8000, max_ticks=bound + 4 * k + 8)
        content = s.content
        vs = []
        # ticks after the last fault took effect
        last_fault = max([i for i, e in enumerate(s.tlog) if e[0] == "link"], default=-1)
        ticks_after = sum(1 for e in s.tlog[last_fault + 1 :] if e[0] == "tick")
        kinds = sorted({f"{a[0]}:{a[2]}" for a in s.link.applied})
        cause = "+".join(kinds) if kinds else "none"
        nak = "imm" if cfg["immediate_nak"] else "def"
        # root-cause bucket: what the handlers complained about, not which fault combination led there
        fcb = sorted({f"{f[1]}:{f[2]}:{f[4]}" for f in s.faults()})
        refusals = sorted({f"{e[1]}:{e[3]}" for e in s.excs(library=True)})
        base = f"{nak}/faultcb[{','.join(fcb)}]/refused[{','.join(refusals)}]"
        internal = s.excs(library=False)
        if internal:
            e = internal[0]
            vs.append(verdict("recovers", f"C03/internal-error/{e[1]}/{e[3]}/{base}", e[5]))
        elif s.outcome != "done":
            vs.append(verdict("both-idle", f"C03/not-idle/{s.outcome}/{base}", f"src {s.src.h.step.name} dst {s.dst.h.step.name}; ticks {s.ticks}; faults {cause}"))
        else:
            if s.dest_bytes() != content:
                vs.append(verdict("file-identical", f"C03/file-differs/{base}", f"got {None if s.dest_bytes() is None else len(s.dest_bytes())} want {len(content)}; faults {cause}"))
            for side in ("src", "dst"):
                fins = s.finished_inds(side)
                if not fins or fins[-1]["cond"] != 0 or fins[-1]["delivery"] != 0 or any(f["cond"] != 0 for f in fins):
                    vs.append(verdict("both-users-success", f"C03/no-success/{side}/{base}", f"{fins[:3]}; faults {cause}"))
                    break
            if not vs and ticks_after > bound:
                vs.append(verdict("bounded", f"C03/too-many-expiries/{base}", f"{ticks_after} > {bound}"))
        applied = len(s.link.applied)
        classes = [f"applied:{min(applied, 5)}"] + [f"hit:{x}" for x in kinds]
        if s.ticks:
            classes.append("needed-expiry")
        summ = sim.summarize(s)
        summ["ticks_after_last_fault"] = ticks_after
        return vs, applied, classes, summ, s
    finally:
        s.close()


def evaluate(case):
    k = case.get("k", len(case.get("faults") or []))
    vs, applied, classes, summ, _ = run_case(case, k)
    cfg = case["cfg"]
    key = (str(sorted(cfg.items())), str(case.get("file")), str(case.get("faults")), str(case.get("pacing")), case.get("tick_mode"), str(case.get("extra_polls")))
    return Result(vs, applied >= 1, classes, summ, nt_key=key)


def replay(case):
    return evaluate(case).verdicts


# ---------------------------------------------------------------- exhaustive part
def _pdu_sequence(case):
    """(kind, occurrence) of every PDU put on the link by the run of `case`."""
    s = sim.Sim(case)
    try:
        s.run(max_steps=8000, max_ticks=40)
        return sorted(s.link.count.items())
    finally:
        s.close()


def exhaustive_cases(shard, nshards):
    idx = 0
    for size, immediate, closure, polls in itertools.product(SIZES, [True, False], [False, True], [None, [3, 3]]):
        cfg = base_cfg(immediate, closure, 2)
        f = {"pat": b"\x11\x22\x33\x44\x55", "size": size}
        nominal = {"cfg": cfg, "file": f, "faults": [], "k": 2}
        if polls:
            nominal["extra_polls"] = polls
        if idx % nshards == shard:
            yield nominal
        idx += 1
        seq0 = _pdu_sequence(nominal)
        firsts = [[kind, occ, a, arg] for kind, n in seq0 for occ in range(n) for a, arg in ACTIONS]
        for f1 in firsts:
            idx += 1
            if idx % nshards != shard:
                continue
            c1 = {"cfg": cfg, "file": f, "faults": [f1], "k": 2}
            if polls:
                c1["extra_polls"] = polls
            yield c1
            seq1 = _pdu_sequence(c1)
            for kind, n in seq1:
                for occ in range(n):
                    for a, arg in ACTIONS:
                        f2 = [kind, occ, a, arg]
                        if (f2[0], f2[1]) == (f1[0], f1[1]) and ACTIONS.index((a, arg)) <= ACTIONS.index((f1[2], f1[3])):
                            continue  # same PDU: unordered pair of different actions once
                        if (f2[0], f2[1]) != (f1[0], f1[1]) and [f2[0], f2[1]] < [f1[0], f1[1]] and (f2[0], f2[1]) in {(k2, o2) for k2, n2 in seq0 for o2 in range(n2)}:
                            continue  # both PDUs exist in the nominal run: the pair is produced from the other first fault
                        c2 = {"cfg": cfg, "file": f, "faults": [f1, f2], "k": 2}
                        if polls:
                            c2["extra_polls"] = polls
                        yield c2


def triple_cases(shard, nshards):
    """Thorough tier: every fault set of size 3 (each further fault placed on the PDU sequence of the run with the faults
    so far) for sizes 0, 1 and 9 (two segments), limits 4, lock-step pacing; duplicates of the same set are skipped."""
    idx = 0
    for size, immediate, closure in itertools.product([0, 1, SEG + 1], [True, False], [False, True]):
        cfg = base_cfg(immediate, closure, 3)
        f = {"pat": b"\x11\x22\x33\x44\x55", "size": size}
        seen = set()
        seq0 = _pdu_sequence({"cfg": cfg, "file": f, "faults": [], "k": 3})
        for f1 in [[kind, occ, a, arg] for kind, n in seq0 for occ in range(n) for a, arg in ACTIONS]:
            idx += 1
            if idx % nshards != shard:
                continue
            seq1 = _pdu_sequence({"cfg": cfg, "file": f, "faults": [f1], "k": 3})
            for f2 in [[kind, occ, a, arg] for kind, n in seq1 for occ in range(n) for a, arg in ACTIONS]:
                if (f2[0], f2[1]) == (f1[0], f1[1]):
                    continue
                seq2 = _pdu_sequence({"cfg": cfg, "file": f, "faults": [f1, f2], "k": 3})
                for f3 in [[kind, occ, a, arg] for kind, n in seq2 for occ in range(n) for a, arg in ACTIONS]:
                    if (f3[0], f3[1]) in ((f1[0], f1[1]), (f2[0], f2[1])):
                        continue
                    key = frozenset(map(tuple, (f1, f2, f3)))
                    if key in seen:
                        continue
                    seen.add(key)
                    yield {"cfg": cfg, "file": f, "faults": [f1, f2, f3], "k": 3}


# ---------------------------------------------------------------- sampled part
@st.composite
def sampled_case(draw):
    k = draw(st.integers(3, 5))
    cfg = draw(S.cfgs(modes=("ACK",), csums=("CRC_32", "CRC_32C", "MODULAR", "NULL_CHECKSUM")))
    lim = k + draw(st.integers(1, 3))
    cfg["ack_limit"], cfg["nak_limit"] = lim, k + draw(st.integers(1, 3))
    f = draw(S.file_specs(cfg, max_bytes=3000, max_segments=40))
    seg = S.eff_seg_len(cfg)
    nseg = (f["size"] + seg - 1) // seg
    faults = []
    for _ in range(k):
        kind = draw(st.sampled_from(["FD", "FD", "MD", "EOF", "NAK", "FIN", "ACK_EOF", "ACK_FIN"]))
        occ = draw(st.integers(0, nseg + 3)) if kind == "FD" else draw(st.integers(0, 2))
        act = draw(st.sampled_from(["drop", "drop", "dup", "delay", "hold"]))
        arg = draw(st.integers(1, 6)) if act == "delay" else (draw(st.integers(1, 2)) if act == "hold" else 0)
        faults.append([kind, occ, act, arg])
    case = {"cfg": cfg, "file": f, "faults": faults, "k": k}
    if draw(st.integers(0, 2)) == 0:
        case["pacing"] = draw(S.pacing_scripts(max_len=25))
    if draw(st.integers(0, 3)) == 0:
        case["tick_mode"] = "exact"
    if draw(st.integers(0, 2)) == 0:
        case["extra_polls"] = [draw(st.integers(0, 4)), draw(st.integers(0, 4))]
    return case


PARAMS = {"quick": {"sampled": 800}, "thorough": {"sampled": 15000}}


def shard(ctx):
    out = Out()
    enum_search(out, ctx["known"], exhaustive_cases(ctx["shard"], ctx["nshards"]), evaluate, stop_after=12)
    out.extra["exhaustive_cases"] = out.evaluations
    out.extra["exhaustive_part"] = "all fault sets |F| <= 2, sizes {0,1,8,9,17}, immediate/deferred, closure on/off, limits 3"
    out.exhaustive = False
    if ctx["tier"] == "thorough":
        n0 = out.evaluations
        enum_search(out, ctx["known"], triple_cases(ctx["shard"], ctx["nshards"]), evaluate, stop_after=12)
        out.extra["exhaustive_triple_fault_cases"] = out.evaluations - n0
        out.extra["exhaustive_part"] += "; all fault sets |F| = 3 on distinct PDUs, sizes {0,1,9}, limits 4"
    hyp_search(out, ctx["known"], sampled_case(), evaluate, PARAMS[ctx["tier"]]["sampled"], ctx["seed"])
    sim.cleanup_sandbox()
    return out


def selftest(merged, tier):
    c = merged["classes"]
    need = [f"hit:{k}:{a}" for k in ("MD", "FD", "EOF", "ACK_EOF", "NAK", "FIN", "ACK_FIN") for a in ("drop", "dup", "delay", "hold")]
    for k in need + ["applied:2", "needed-expiry"]:
        if c.get(k, 0) < 5:
            return f"class {k} nearly empty: {c.get(k, 0)}"
    return None
