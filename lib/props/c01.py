"""C01 - a reported successful delivery implies a byte-identical file."""
from __future__ import annotations

from hypothesis import strategies as st

from .. import models, sim
from .. import strategies as S
from ..core import Out, Result, hyp_search, verdict

ID = "C01"
LEVEL = "exploration"
TECHNIQUE = "Hypothesis-generated transfers with adversarial fault schedules (drop/dup/delay/hold/bit-flip, write rejections) through the two-entity simulator; file read at the instant of every success report and compared with the source / reference checksum"
LEVEL_TEXT = (
    "Generated transfers in both modes with up to 12 link faults (biased towards retransmissions, NAKs, EOF overtaking data), payload bit flips "
    "and rejected filestore writes. The destination file is read inside every Transaction-Finished callback and whenever a Finished PDU leaves the "
    "receiver; a report of (no error, data complete, file retained) with different bytes is a violation unless the reference checksum of the "
    "destination bytes equals the EOF checksum (genuine collision, CRC types only)."
)
LEVEL_NOTE = "Safety only: runs that never report success satisfy C01 vacuously (counted). Sampled; bounded by file size (<= 4 KiB quick) and <= 12 faults."
RULE = (
    "case = configuration + file + fault schedule (kind, occurrence, action) + optional write rejections + pacing. CRC-32 / CRC-32C: all fault "
    "kinds; null / modular checksum: acknowledged mode with drop / dup / delay / hold only (the statement's carve-out), where strict identity is "
    "required. Non-trivial: >= 1 fault was applied and >= 1 success report was checked. Distinct = distinct (configuration class, fault schedule) pair."
)
ASSUMPTIONS = [
    "bit flips are applied to the File Data payload as delivered to the receiver (the PDU CRC, if enabled, is not recomputed by the link model)",
    "a success report = Transaction-Finished indication or Finished PDU with (NO_ERROR, DATA_COMPLETE, FILE_RETAINED); for the sender only with closure or in acknowledged mode",
]


@st.composite
def case_strategy(draw):
    weak = draw(st.integers(0, 3)) == 0
    if weak:
        cfg = draw(S.cfgs(modes=("ACK",), csums=("NULL_CHECKSUM", "MODULAR"), vary_limits=True))
    else:
        cfg = draw(S.cfgs(csums=("CRC_32", "CRC_32C"), vary_limits=True))
    f = draw(S.file_specs(cfg, max_bytes=4096, max_segments=16))
    seg = S.eff_seg_len(cfg)
    nseg = (f["size"] + seg - 1) // seg if f["size"] else 0
    actions = ("drop", "drop", "dup", "delay", "hold") if weak else ("drop", "drop", "dup", "delay", "hold", "flip", "flip")
    n = draw(st.integers(0, 12))
    faults = []
    for _ in range(n):
        kind = draw(st.sampled_from(["FD", "FD", "FD", "MD", "EOF", "NAK", "FIN", "ACK_EOF", "ACK_FIN"]))
        occ = draw(st.integers(0, nseg + 8)) if kind == "FD" else draw(st.integers(0, 3))
        act = draw(st.sampled_from(actions))
        if act == "flip" and kind != "FD":
            act = "drop"
        arg = draw(st.integers(1, 5)) if act in ("delay", "hold") else (draw(st.integers(0, 8 * seg - 1)) if act == "flip" else 0)
        faults.append([kind, occ, act, arg])
    if draw(st.integers(0, 5)) == 0 and nseg >= 3 and sim.eff_mode(cfg) == "ACK":
        # adversarial shape: the Metadata PDU is overtaken by k File Data PDUs (but not by the EOF) and one of the File Data
        # PDUs that arrive before it - or right after it - is lost; optionally the first NAKs are lost as well
        k = draw(st.integers(2, min(nseg - 1, 6)))
        faults = [["MD", 0, "delay", k], ["FD", draw(st.integers(0, k)), "drop", 0]]
        if draw(st.booleans()):
            faults += [["NAK", i, "drop", 0] for i in range(draw(st.integers(1, 3)))]
        faults += [x for x in draw(S.fault_schedules(max_faults=2, actions=("drop", "dup", "delay")))]
    if draw(st.integers(0, 7)) == 0 and sim.eff_mode(cfg) == "ACK":
        # adversarial shape: the success report of the receiver reaches the sender only after the receiver has given up
        # waiting for its acknowledgement (first Finished PDU held back past the positive ACK limit, the re-sent ones lost)
        cfg["disposition"] = draw(st.booleans()) or True
        L = cfg.get("ack_limit", 2)
        faults = [["FIN", 0, "hold", L + draw(st.integers(0, 2))]] + [["FIN", i, "drop", 0] for i in range(1, L + 1)] + faults[:2]
    case = {"cfg": cfg, "file": f, "faults": faults}
    if not weak and draw(st.integers(0, 4)) == 0:
        case["fs_rejects"] = {"writes": sorted(set(draw(st.lists(st.integers(0, nseg + 4), min_size=1, max_size=3))))}
    if draw(st.integers(0, 3)) == 0:
        case["pacing"] = draw(S.pacing_scripts(max_len=20))
    if draw(st.integers(0, 3)) == 0:
        # destination shapes: a directory, an existing (longer) file, a directory already holding a longer file of that name
        case["dest_kind"] = draw(st.sampled_from(["dir", "existing", "dir_existing"]))
    return case


def evaluate(case):
    cfg = sim.norm_cfg(case["cfg"])
    state = {"reports": [], "sim": None}

    def read_dest():
        s = state["sim"]
        return s.dest_bytes() if s is not None else None

    def hook(side, name, data, raw):
        if name != "finished":
            return
        # receiver: (no error, data complete, file retained); sender: (no error, data complete) - the file status it
        # reports is whatever the Finished PDU said, or 'unreported' when it made the report up itself
        if data["cond"] == 0 and data["delivery"] == 0 and (data["status"] == 2 or side == "src"):
            state["reports"].append((side + "-indication", read_dest()))

    s = sim.Sim(case, hook=hook)
    state["sim"] = s
    seen = {"n": len(s.log)}

    def between(_s):
        for e in s.log[seen["n"] :]:
            if e[0] == "emit" and e[1] == "dst" and sim.pdu_kind(e[3]) == "FIN":
                fp = e[3].finished_params
                if int(fp.condition_code) == 0 and int(fp.delivery_code) == 0 and int(fp.file_status) == 2:
                    state["reports"].append(("dst-finished-pdu", read_dest()))
        seen["n"] = len(s.log)

    s.between = between
    try:
        s.run(max_steps=5000, max_ticks=40)
        content = s.content
        weak = cfg["crc_type"] in ("NULL_CHECKSUM", "MODULAR")
        mode, closure = sim.eff_mode(cfg), sim.eff_closure(cfg)
        eofs = [p for p in s.emitted("src") if sim.pdu_kind(p) == "EOF" and int(p.condition_code) == 0]
        eof_csum = bytes(eofs[0].file_checksum) if eofs else None
        vs = []
        collisions = 0
        checked = 0
        for who, got in state["reports"]:
            if who.startswith("src") and not (closure or mode == "ACK"):
                continue
            checked += 1
            if got == content:
                continue
            if not weak and got is not None and eof_csum is not None and models.ref_checksum(cfg["crc_type"], got) == eof_csum:
                collisions += 1
                continue
            kinds = sorted({a[2] for a in s.link.applied})
            cause = "+".join(kinds) if kinds else "no-link-fault"
            if case.get("fs_rejects") and getattr(s.dst_vfs, "rejected", 0):
                cause += "+write-rejected"
            vs.append(
                verdict(
                    "success-implies-identical",
                    f"C01/success-with-different-file/{who}/{mode}/{cfg['crc_type']}/{cause}",
                    f"{who}: destination has {None if got is None else len(got)} bytes, source {len(content)}; first difference at {_first_diff(got, content)}; faults applied {s.link.applied[:12]}",
                )
            )
            break
        applied = len(s.link.applied) + (getattr(s.dst_vfs, "rejected", 0) if case.get("fs_rejects") else 0)
        nt = (applied >= 1 or case.get("dest_kind") in ("existing", "dir_existing")) and checked >= 1
        if case.get("dest_kind"):
            classes_extra = [f"dest:{case['dest_kind']}"]
        else:
            classes_extra = []
        classes = [f"mode:{mode}", f"csum:{cfg['crc_type']}", f"outcome:{s.outcome}"] + classes_extra
        classes.append("success-reported" if checked else "no-success-report")
        if applied:
            classes.append("faults-applied")
        for a in {x[2] for x in s.link.applied}:
            classes.append(f"fault:{a}")
        if any(x[0] == "FD" and x[2] in ("drop", "flip") for x in s.link.applied) and any(sim.pdu_kind(p) == "NAK" for p in s.emitted("dst")):
            classes.append("data-fault-with-nak")
        if collisions:
            classes.append("genuine-collision")
        if case.get("fs_rejects") and getattr(s.dst_vfs, "rejected", 0):
            classes.append("write-rejected")
        if s.excs(library=False):
            classes.append("aborted-by-internal-error")
        key = (mode, closure, cfg["crc_type"], cfg["immediate_nak"], tuple(map(tuple, case["faults"])), str(case.get("fs_rejects")))
        summ = sim.summarize(s)
        summ["reports"] = [(w, None if g is None else len(g)) for w, g in state["reports"]]
        return Result(vs, nt, classes, summ, nt_key=key)
    finally:
        s.close()


def _first_diff(a, b):
    if a is None:
        return "destination absent"
    for i, (x, y) in enumerate(zip(a, b)):
        if x != y:
            return i
    return min(len(a), len(b))


def replay(case):
    return evaluate(case).verdicts


PARAMS = {"quick": 1600, "thorough": 25000}


def shard(ctx):
    models.selfcheck()
    out = Out()
    hyp_search(out, ctx["known"], case_strategy(), evaluate, PARAMS[ctx["tier"]], ctx["seed"])
    sim.cleanup_sandbox()
    return out


def selftest(merged, tier):
    c = merged["classes"]
    for k in ("success-reported", "faults-applied", "fault:flip", "fault:drop", "fault:dup", "data-fault-with-nak", "write-rejected", "mode:NAK", "csum:NULL_CHECKSUM"):
        if c.get(k, 0) < 20:
            return f"class {k} nearly empty: {c.get(k, 0)}"
    return None
