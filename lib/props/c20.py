"""C20 - PDU routing agrees with what each handler accepts (finite space, enumerated completely)."""
from __future__ import annotations

import copy
import itertools

from spacepackets.cfdp import (
    ChecksumType,
    ConditionCode,
    CrcFlag,
    Direction,
    LargeFileFlag,
    PduConfig,
    TransmissionMode,
)
from spacepackets.cfdp.pdu import (
    AckPdu,
    DirectiveType,
    EofPdu,
    FileDataPdu,
    FinishedPdu,
    KeepAlivePdu,
    MetadataParams,
    MetadataPdu,
    NakPdu,
    TransactionStatus,
)
from spacepackets.cfdp.pdu.file_data import FileDataParams
from spacepackets.cfdp.pdu.finished import DeliveryCode, FileStatus, FinishedParams
from spacepackets.cfdp.pdu.prompt import PromptPdu, ResponseRequired
from spacepackets.util import UnsignedByteField

from .. import sim
from ..core import Out, Result, enum_search, verdict

ID = "C20"
LEVEL = "exploration"
TECHNIQUE = "complete enumeration of the PDU-type x flag space against the routing table and an admission/route agreement oracle"
LEVEL_TEXT = (
    "The whole finite space of the statement (9 PDU kinds x direction flag x mode x 4 id widths x CRC "
    "flag x large-file flag x {constructed object, serialised and parsed again}, each offered to a sender in 4 steps and a receiver idle and busy, plus the "
    "inactive-EOF acknowledgement helper over every condition code and status) is executed; "
    "coverage.exhaustive is true for that space."
)
LEVEL_NOTE = "Ids and sequence numbers are always the right ones, so only type and direction decide; trusts spacepackets' PDU classes."
RULE = (
    "product of {FD, MD, EOF, FIN, ACK(EOF), ACK(FIN), NAK, PROMPT, KA} x direction flag x mode x id width "
    "{1,2,4,8} x CRC flag x large-file flag x {object, reparsed from bytes}; each PDU is routed (context 'route') and offered to a fresh "
    "SourceHandler in the steps after-metadata / mid-file / awaiting-EOF-ACK / awaiting-Finished and to a fresh "
    "DestHandler idle / busy; plus acknowledge_inactive_eof_pdu over condition codes x statuses x widths x CRC. "
    "Every case is non-trivial (each decides one table cell); distinct = distinct (PDU, context) tuple."
)
ASSUMPTIONS = [
    "'refused as belonging to the other side' is read as InvalidPduForSourceHandler / InvalidPduForDestHandler",
    "a PDU routed to the other handler must be refused with one of the library's exceptions and leave the "
    "public state (state, step, progress, file size, transaction id, queued PDUs) unchanged",
    "sender steps that do not exist for a mode (awaiting EOF ACK in unacknowledged mode) are skipped and counted",
]

KINDS = ["FD", "MD", "EOF", "FIN", "ACK_EOF", "ACK_FIN", "NAK", "PROMPT", "KA"]
EXPECT = {"FD": "DEST", "MD": "DEST", "EOF": "DEST", "PROMPT": "DEST", "ACK_FIN": "DEST", "FIN": "SOURCE", "NAK": "SOURCE", "KA": "SOURCE", "ACK_EOF": "SOURCE"}
SRC_CTX = ["src:after_md", "src:mid_fd", "src:wait_eof_ack", "src:wait_fin"]
DST_CTX = ["dst:idle", "dst:busy"]
SEQ = 7


def _conf(c):
    w = c["w"]
    return PduConfig(
        source_entity_id=UnsignedByteField(1, w),
        dest_entity_id=UnsignedByteField(2, w),
        transaction_seq_num=UnsignedByteField(SEQ, 2),
        trans_mode=sim.MODES[c["mode"]],
        file_flag=LargeFileFlag.LARGE if c["large"] else LargeFileFlag.NORMAL,
        crc_flag=CrcFlag.WITH_CRC if c["crc"] else CrcFlag.NO_CRC,
    )


def build_pdu(c):
    conf = _conf(c)
    k = c["kind"]
    if k == "FD":
        p = FileDataPdu(conf, FileDataParams(b"xy", 0))
    elif k == "MD":
        p = MetadataPdu(conf, MetadataParams(False, ChecksumType.CRC_32, 4, "/nonexistent/s", "/nonexistent/d"))
    elif k == "EOF":
        p = EofPdu(conf, b"\x00\x00\x00\x00", 4)
    elif k == "FIN":
        p = FinishedPdu(conf, FinishedParams(ConditionCode.NO_ERROR, DeliveryCode.DATA_COMPLETE, FileStatus.FILE_RETAINED))
    elif k == "ACK_EOF":
        p = AckPdu(conf, DirectiveType.EOF_PDU, ConditionCode.NO_ERROR, TransactionStatus.ACTIVE)
    elif k == "ACK_FIN":
        p = AckPdu(conf, DirectiveType.FINISHED_PDU, ConditionCode.NO_ERROR, TransactionStatus.ACTIVE)
    elif k == "NAK":
        p = NakPdu(copy.copy(conf), 0, 4, [(0, 2)])
    elif k == "PROMPT":
        p = PromptPdu(conf, ResponseRequired.KEEP_ALIVE)
    elif k == "KA":
        p = KeepAlivePdu(conf, 2)
    else:
        raise ValueError(k)
    p.pdu_header.pdu_conf.direction = Direction.TOWARDS_SENDER if c["dir"] == "S" else Direction.TOWARDS_RECEIVER
    return p


def _snap(h):
    return (
        h.states.state,
        h.states.step,
        h.progress,
        h.file_size,
        sim.tid_plain(h.transaction_id),
        h.states.num_packets_ready,
        len(h._pdus_to_be_sent),
    )


def _cfg(c, closure):
    return {
        "mode": c["mode"],
        "closure": closure,
        "pdu_crc": c["crc"],
        "src_id": [c["w"], 1],
        "dst_id": [c["w"], 2],
        "seq_width": 16,
        "seq_start": SEQ,
        "max_pkt": 64,
        "max_seg": 2,
    }


def _sender_in(c, ctx):
    """Fresh SourceHandler driven to the wanted step; None if the step does not exist for the mode."""
    from cfdppy.handler.source import TransactionStep as S

    sim.install_clock()
    sim.CLOCK.reset()
    closure = True
    cfg = sim.norm_cfg(_cfg(c, closure))
    log = []
    d = sim.fresh_dir("c20")
    f = d / "src.bin"
    f.write_bytes(b"abcdef")
    h, user, fh, seqp = sim.make_source(cfg, log)
    from cfdppy.request import PutRequest

    h.put_request(PutRequest(UnsignedByteField(2, c["w"]), f, d / "dst.bin", None, None))

    def call(p=None):
        h.state_machine(p)
        out = []
        while (x := h.get_next_packet()) is not None:
            out.append(x.pdu)
        return out

    call()  # metadata
    if ctx == "src:after_md":
        return h
    call()  # first segment
    if ctx == "src:mid_fd":
        assert h.step == S.SENDING_FILE_DATA and 0 < h.progress < 6
        return h
    for _ in range(10):
        if h.step in (S.WAITING_FOR_EOF_ACK, S.WAITING_FOR_FINISHED):
            break
        call()
    if ctx == "src:wait_eof_ack":
        if c["mode"] != "ACK":
            return None
        assert h.step == S.WAITING_FOR_EOF_ACK
        return h
    if ctx == "src:wait_fin":
        if c["mode"] == "ACK":
            conf = copy.copy(h.pdu_conf)
            call(AckPdu(conf, DirectiveType.EOF_PDU, ConditionCode.NO_ERROR, TransactionStatus.ACTIVE))
        assert h.step == S.WAITING_FOR_FINISHED, h.step
        return h
    raise ValueError(ctx)


def _receiver_in(c, ctx):
    sim.install_clock()
    sim.CLOCK.reset()
    sim.workaround_shared_tracker()
    cfg = sim.norm_cfg(_cfg(c, True))
    log = []
    h, user, fh = sim.make_dest(cfg, log)
    if ctx == "dst:idle":
        return h
    d = sim.fresh_dir("c20")
    conf = _conf(c)
    md = MetadataPdu(conf, MetadataParams(True, ChecksumType.CRC_32, 6, str(d / "s.bin"), str(d / "dst.bin")))
    h.state_machine(md)
    while h.get_next_packet() is not None:
        pass
    h.state_machine(FileDataPdu(_conf(c), FileDataParams(b"ab", 0)))
    while h.get_next_packet() is not None:
        pass
    from cfdppy.defs import CfdpState

    assert h.state == CfdpState.BUSY
    return h


def evaluate(case):
    c = case
    ctx = c["ctx"]
    if ctx == "ackhelper":
        return _eval_ack_helper(c)
    from cfdppy.handler.common import PacketDestination, get_packet_destination
    from cfdppy.exceptions import InvalidPduForDestHandler, InvalidPduForSourceHandler

    pdu = build_pdu(c)
    if c.get("wire"):
        # what a real link delivers: the PDU serialised and parsed again (plain ints where the constructor has enums)
        pdu = sim.transport(pdu, "wire")
    label = f"{c['kind']} dir={c['dir']} mode={c['mode']} w={c['w']} crc={c['crc']} large={c['large']} {'reparsed' if c.get('wire') else 'object'}"
    try:
        dest = get_packet_destination(pdu)
    except Exception as e:  # noqa: BLE001
        return Result([verdict("routing-table", f"C20/route-raised/{c['kind']}/{type(e).__name__}", f"{label}: {e!r}")], True, ["route-error"])
    routed = "DEST" if dest == PacketDestination.DEST_HANDLER else "SOURCE"
    if ctx == "route":
        vs = []
        if routed != EXPECT[c["kind"]]:
            vs.append(verdict("routing-table", f"C20/route/{c['kind']}->{routed}", label))
        return Result(vs, True, ["route"], {"routed": routed})
    side = "SOURCE" if ctx.startswith("src:") else "DEST"
    try:
        h = _sender_in(c, ctx) if side == "SOURCE" else _receiver_in(c, ctx)
    except Exception as e:  # noqa: BLE001
        # bringing the handler to the step uses only its own side's PDUs of a nominal transfer: if one of those is
        # refused as foreign, or the routing helper itself fails on it, that is the property failing, not the harness
        import traceback

        via_router = any(fr.filename.replace("\\", "/").endswith("cfdppy/handler/common.py") for fr in traceback.extract_tb(e.__traceback__))
        if isinstance(e, (InvalidPduForDestHandler, InvalidPduForSourceHandler)) or via_router:
            return Result([verdict("routed-not-refused-as-foreign", f"C20/own-pdu-refused-in-nominal-transfer/{side}/{type(e).__name__}", f"{label} ctx={ctx}: {e!r}")], True, ["setup-refused"])
        raise
    if h is None:
        return Result([], False, ["step-not-applicable"])
    before = _snap(h)
    exc = None
    try:
        h.state_machine(pdu)
    except Exception as e:  # noqa: BLE001
        exc = e
    after = _snap(h)
    vs = []
    other_side_exc = InvalidPduForSourceHandler if side == "SOURCE" else InvalidPduForDestHandler
    if routed == side:
        cls = "routed-here"
        if isinstance(exc, other_side_exc):
            vs.append(verdict("routed-not-refused-as-foreign", f"C20/own-pdu-refused-as-foreign/{side}/{c['kind']}/dir{c['dir']}", f"{label} ctx={ctx}: {exc!r}"))
    else:
        cls = "routed-elsewhere"
        if exc is None:
            vs.append(verdict("foreign-always-refused", f"C20/foreign-pdu-accepted/{side}/{c['kind']}/dir{c['dir']}", f"{label} ctx={ctx}: accepted"))
        elif not isinstance(exc, sim.LIB_EXC):
            vs.append(verdict("foreign-always-refused", f"C20/foreign-pdu-crash/{side}/{c['kind']}/dir{c['dir']}/{type(exc).__name__}", f"{label} ctx={ctx}: {exc!r}"))
        if before != after:
            vs.append(verdict("foreign-no-state-change", f"C20/foreign-pdu-changed-state/{side}/{c['kind']}/dir{c['dir']}", f"{label} ctx={ctx}: {before} -> {after}"))
    return Result(vs, True, [cls, ctx], {"routed": routed, "result": "accepted" if exc is None else type(exc).__name__})


STATUSES = ["UNDEFINED", "TERMINATED", "UNRECOGNIZED", "ACTIVE"]
CONDS = [c for c in ConditionCode if c != ConditionCode.NO_CONDITION_FIELD]


def _eval_ack_helper(c):
    from cfdppy.handler.dest import acknowledge_inactive_eof_pdu

    conf = _conf({**c, "large": False})
    cond = ConditionCode[c["cond"]]
    status = TransactionStatus[c["status"]]
    eof = EofPdu(conf, b"\x01\x02\x03\x04", 3, condition_code=cond)
    label = f"cond={c['cond']} status={c['status']} mode={c['mode']} w={c['w']} crc={c['crc']}"
    vs = []
    try:
        ack = acknowledge_inactive_eof_pdu(eof, status)
        exc = None
    except ValueError as e:
        ack, exc = None, e
    except Exception as e:  # noqa: BLE001
        return Result([verdict("ack-helper", f"C20/ack-helper-raised/{type(e).__name__}", f"{label}: {e!r}")], True, ["ackhelper"])
    if c["status"] == "ACTIVE":
        if exc is None:
            vs.append(verdict("ack-helper-refuses-active", "C20/ack-helper-accepted-active", label))
    elif exc is not None:
        vs.append(verdict("ack-helper", "C20/ack-helper-refused-nonactive", f"{label}: {exc!r}"))
    else:
        ok = (
            sim.pdu_kind(ack) == "ACK_EOF"
            and ack.pdu_header.direction == Direction.TOWARDS_SENDER
            and ack.condition_code_of_acked_pdu == cond
            and ack.transaction_status == status
            and ack.source_entity_id.value == 1
            and ack.dest_entity_id.value == 2
            and ack.source_entity_id.byte_len == c["w"]
            and ack.transaction_seq_num.value == SEQ
            and ack.transmission_mode == sim.MODES[c["mode"]]
            and bool(ack.pdu_header.crc_flag) == c["crc"]
        )
        if ok:
            try:
                back = sim.transport(ack, "wire")
                ok = sim.pdu_kind(back) == "ACK_EOF" and back.condition_code_of_acked_pdu == cond and back.transaction_status == status
            except Exception as e:  # noqa: BLE001
                ok = False
        if not ok:
            vs.append(verdict("ack-helper", "C20/ack-helper-wrong-ack", f"{label}: {ack!r}"))
    return Result(vs, True, ["ackhelper"], {"status": c["status"]})


def replay(case):
    return evaluate(case).verdicts


def all_cases():
    for kind, d, mode, w, crc, large, wire in itertools.product(KINDS, "RS", ["ACK", "NAK"], [1, 2, 4, 8], [False, True], [False, True], [False, True]):
        base = {"kind": kind, "dir": d, "mode": mode, "w": w, "crc": crc, "large": large, "wire": wire}
        for ctx in ["route"] + SRC_CTX + DST_CTX:
            yield {**base, "ctx": ctx}
    for cond, status, mode, w, crc in itertools.product(CONDS, STATUSES, ["ACK", "NAK"], [1, 2, 4, 8], [False, True]):
        yield {"ctx": "ackhelper", "cond": cond.name, "status": status, "mode": mode, "w": w, "crc": crc}


def shard(ctx):
    out = Out()
    cases = (c for i, c in enumerate(all_cases()) if i % ctx["nshards"] == ctx["shard"])
    enum_search(out, ctx["known"], cases, evaluate, stop_after=40)
    out.exhaustive = True
    sim.cleanup_sandbox()
    return out
