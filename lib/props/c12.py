"""C12 - cancellation takes effect immediately and is signalled correctly."""
from __future__ import annotations

import itertools

from hypothesis import strategies as st
from spacepackets.cfdp import ConditionCode

from .. import models, sim
from .. import strategies as S
from ..core import Out, Result, enum_search, hyp_search, verdict
from ..models import IntervalSet

ID = "C12"
LEVEL = "fault_enumeration"
TECHNIQUE = (
    "complete enumeration of cancel injection points: Cancel.request with the right / a wrong transaction id before every state-machine call of "
    "either handler, and an EOF (cancel) PDU with every cancel condition before every receiver call, on small transfers in all mode / closure / "
    "disposition / checksum settings; plus Hypothesis-sampled transfers with link faults and cancels; clause-by-clause oracle on the event log, "
    "differential against the uninjected run for refused cancels"
)
LEVEL_TEXT = (
    "For file sizes {metadata-only, 0, <segment, 2 segments+1, 4 segments} x mode x closure x disposition-on-cancellation x checksum type a "
    "Cancel.request (right id, wrong id) is injected before every call of the sender and of the receiver of the two-entity simulation, and an "
    "EOF (cancel) PDU with each cancel condition before every receiver call. Checked: the return value against the handler's state at that "
    "instant; a refused cancel changes nothing (trace equal to the uninjected run); sender: next PDU is EOF (Cancel Request Received) whose size "
    "is the number of file bytes sent and whose checksum is the reference checksum of that prefix, and no later file data goes beyond it; "
    "receiver: Transaction-Finished with the cancel condition and (closure / acknowledged) a Finished PDU with it and the right fault location; "
    "the file is gone exactly when disposition is configured and the completion reported incomplete data."
)
LEVEL_NOTE = (
    "Exhaustive over injection points of the listed small transfers on a fault-free link; link faults combined with cancels are sampled. 'Incomplete' "
    "is the delivery code the receiver itself reports for that completion. What the sender's user is told after its own cancel is not checked "
    "(statement silent)."
)
RULE = (
    "case = configuration + file + injection list [(side, call index, cancel right/wrong id | EOF (cancel) condition)] (+ fault schedule in the "
    "sampled part). Non-trivial: a cancel was accepted, or an EOF (cancel) was delivered, while >= 1 and < all file bytes had been sent / "
    "received, or a cancel was refused while a transaction was active. Exhaustive cases are distinct by construction."
)
ASSUMPTIONS = [
    "a right-id cancel is only possible once the handler exposes a transaction id; before that (and when idle) the harness passes a foreign id and expects False",
    "the injected EOF (cancel) states the number of file bytes the sender emitted so far and the reference checksum of that prefix",
    "fault locations are compared by entity-id value (the TLV width follows the configured id width)",
]

CRR = int(ConditionCode.CANCEL_REQUEST_RECEIVED)
SEG = 4
# conditions an EOF (cancel) can carry. Not generated: UNSUPPORTED_CHECKSUM_TYPE (spacepackets 0.26.1 packs an inconsistent Finished
# PDU when a fault location accompanies that condition: dependency quirk) and SUSPEND_REQUEST_RECEIVED (not a cancellation)
CANCEL_CONDS = ["CANCEL_REQUEST_RECEIVED", "POSITIVE_ACK_LIMIT_REACHED", "CHECK_LIMIT_REACHED", "FILESTORE_REJECTION", "FILE_CHECKSUM_FAILURE", "FILE_SIZE_ERROR", "NAK_LIMIT_REACHED", "INACTIVITY_DETECTED", "KEEP_ALIVE_LIMIT_REACHED", "INVALID_TRANSMISSION_MODE"]


def _trace(s):
    out = []
    for e in s.tlog:
        k = e[0]
        if k in ("emit", "entity_emit"):
            out.append((k, e[1], sim.pdu_kind(e[3]), e[4].hex()))
        elif k == "ind":
            out.append(("ind", e[1], e[2], str(sorted(e[3].items(), key=lambda kv: kv[0]))))
        elif k == "fault":
            out.append(tuple(e[:6]))
        elif k == "exc":
            out.append(("exc", e[1], e[3]))
        elif k == "call":
            out.append(("call", e[1], e[3]))
    out.append(("outcome", s.outcome, None if s.dest_bytes() is None else s.dest_bytes().hex()))
    return out


def _loc_value(hexstr):
    return None if hexstr is None else int(hexstr, 16) if hexstr else 0


def evaluate(case):
    cfg = sim.norm_cfg(case["cfg"])
    mode, closure = sim.eff_mode(cfg), sim.eff_closure(cfg)
    vs = []
    classes = [f"mode:{mode}", "closure" if closure else "noclosure", "disposition" if cfg["disposition"] else "nodisposition"]
    s = sim.Sim(case)
    file_at_fin = {}

    def hook(side, name, data, raw):
        if side == "dst" and name == "finished":
            file_at_fin[len(file_at_fin)] = s.dest_bytes()

    s.hook = hook
    s.dst_user.hook = hook
    nt = False
    try:
        s.run(max_steps=6000, max_ticks=40)
        content = s.content
        size = 0 if content is None else len(content)
        log = s.tlog
        injects = [(i, e) for i, e in enumerate(log) if e[0] == "inject"]
        refused_only = bool(injects) and all(e[2] == "cancel" and e[4] is False for _, e in injects)
        internal = s.excs(library=False)
        if internal:
            e = internal[0]
            vs.append(verdict("no-internal-error", f"C12/internal-error/{e[1]}/{e[3]}@{e[5].split(':')[0]}", e[5]))
        effective = {"src": False, "dst": False}  # a cancellation already took effect at that side
        for pos, e in injects:
            side = e[1]
            if e[2] == "cancel":
                right, r, was_busy, had_tid = e[3], e[4], e[6], e[7]
                if isinstance(r, str):
                    vs.append(verdict("cancel-return", f"C12/cancel-raised/{side}/{r}", f"call {e[5]}"))
                    continue
                expect = bool(right and was_busy and had_tid)
                if r is not expect:
                    vs.append(verdict("cancel-return", f"C12/cancel-return/{side}/got-{r}/want-{expect}", f"call {e[5]}: right id {right}, busy {was_busy}, id known {had_tid}"))
                    continue
                classes.append(f"cancel:{side}:{'accepted' if r else 'refused'}")
                if not r:
                    if was_busy:
                        nt = True
                        classes.append("refused-while-active")
                    continue
                after = log[pos + 1 :]
                if side == "src" and any((x[0] == "fault" and x[1] == "src" and x[2] in ("CANCEL", "ABANDON")) or (x[0] == "emit" and x[1] == "src" and sim.pdu_kind(x[3]) == "EOF" and int(x[3].condition_code) != 0) for x in log[:pos]):
                    effective["src"] = True  # the sender's own fault handling cancelled the transaction before
                if side == "dst" and any(x[0] == "fault" and x[1] == "dst" and x[2] in ("CANCEL", "ABANDON") for x in log[:pos]):
                    effective["dst"] = True
                if effective[side] and side == "src":
                    # a second cancellation of a transaction the sender is already cancelling (it may be abandoned,
                    # CFDP 4.11.2.2.3): only the return value is checked
                    classes.append("second-cancel")
                    continue
                if effective[side]:
                    # receiver: an accepted Cancel.request overrides an earlier cancellation (EOF (cancel), fault): the
                    # statement's clause applies to every accepted request
                    classes.append("receiver-cancel-after-earlier-cancellation")
                effective[side] = True
                if side == "src":
                    sent = IntervalSet()
                    for x in log[:pos]:
                        if x[0] == "emit" and x[1] == "src" and sim.pdu_kind(x[3]) == "FD":
                            sent.add(x[3].offset, x[3].offset + len(x[3].file_data))
                    nsent = sent.size()
                    if 0 < nsent < size:
                        nt = True
                        classes.append("sender-cancel-mid-file")
                    nxt = next((x for x in after if x[0] == "emit" and x[1] == "src"), None)
                    step_tag = "mid" if 0 < nsent < size else ("start" if nsent == 0 else "end")
                    if nxt is None:
                        vs.append(verdict("sender-eof-cancel", f"C12/src/no-pdu-after-cancel/{mode}/{step_tag}", f"call {e[5]}"))
                        continue
                    p = nxt[3]
                    if sim.pdu_kind(p) != "EOF" or int(p.condition_code) != CRR:
                        vs.append(verdict("sender-eof-cancel", f"C12/src/next-pdu-not-eof-cancel/{mode}/{sim.pdu_kind(p)}", f"call {e[5]}: next PDU {sim.pdu_desc(p)}"))
                        continue
                    if sent.r and sent.r != [(0, nsent)]:
                        pass  # sent bytes always form a prefix for the sender under test; otherwise nothing to compare
                    elif p.file_size != nsent:
                        vs.append(verdict("sender-eof-size", f"C12/src/eof-size/{mode}/{step_tag}", f"EOF size {p.file_size}, file bytes sent {nsent} of {size}"))
                    else:
                        kind = cfg["crc_type"] if content is not None else "NULL_CHECKSUM"
                        want = models.ref_checksum(kind, (content or b"")[:nsent])
                        if bytes(p.file_checksum) != want:
                            vs.append(verdict("sender-eof-checksum", f"C12/src/eof-checksum/{kind}/{step_tag}", f"EOF checksum {bytes(p.file_checksum).hex()} want {want.hex()} over {nsent} of {size} bytes"))
                    seen_first = False
                    for x in after:
                        if x[0] == "emit" and x[1] == "src":
                            q = x[3]
                            k = sim.pdu_kind(q)
                            if k == "FD" and q.offset + len(q.file_data) > nsent:
                                vs.append(verdict("no-new-file-data", f"C12/src/new-file-data-after-cancel/{mode}", f"FD {q.offset}+{len(q.file_data)} beyond {nsent}"))
                                break
                            if k == "EOF" and seen_first:
                                # re-sent EOF (cancel) of the positive ACK procedure: same size and checksum
                                if int(q.condition_code) == CRR and (q.file_size != p.file_size or bytes(q.file_checksum) != bytes(p.file_checksum)):
                                    vs.append(verdict("sender-eof-checksum", f"C12/src/resent-eof-cancel-differs/{cfg['crc_type']}", f"first {p.file_size}/{bytes(p.file_checksum).hex()} re-sent {q.file_size}/{bytes(q.file_checksum).hex()}"))
                                    break
                            if k == "EOF":
                                seen_first = True
                else:
                    got_before = IntervalSet()
                    for x in log[:pos]:
                        if x[0] == "ind" and x[1] == "dst" and x[2] == "segment_recv":
                            got_before.add(x[3]["off"], x[3]["off"] + x[3]["len"])
                    if 0 < got_before.size() < size:
                        nt = True
                        classes.append("receiver-cancel-mid-file")
                    _check_receiver_completion(vs, s, cfg, after, CRR, cfg["dst_id"][1], "local", mode, closure, file_at_fin, log, pos)
            elif e[2] == "eofcancel":
                cond = int(ConditionCode[e[3]])
                sent = e[4]
                # did the receiver have a transaction (or could it open one) at that moment? the entity answers EOFs of closed transactions itself
                handled = any(x[0] == "call" and x[1] == "dst" and x[3] == "EOF" for x in log[pos + 1 : pos + 3])
                if not handled:
                    classes.append("eofcancel-not-for-handler")
                    continue
                refused = any(x[0] == "exc" and x[1] == "dst" for x in log[pos + 1 : pos + 4])
                if refused:
                    classes.append("eofcancel-refused")
                    continue
                earlier_eof_cancel = any(x[0] == "call" and x[1] == "dst" and x[3] == "EOF" and x[5] is not None and int(x[5].condition_code) != 0 for x in log[:pos])
                if earlier_eof_cancel:
                    # the sender's own EOF (cancel) was delivered before: the transaction is already being cancelled with that condition
                    effective["dst"] = True
                if effective["dst"] or any((x[0] == "ind" and x[1] == "dst" and x[2] == "finished") or (x[0] == "fault" and x[1] == "dst" and x[2] in ("CANCEL", "ABANDON")) for x in log[:pos]):
                    # the receiver has already completed or cancelled this transaction: the late EOF (cancel) cannot finish it again
                    classes.append("eofcancel-after-completion")
                    continue
                got_b = IntervalSet()
                for x in log[:pos]:
                    if x[0] == "ind" and x[1] == "dst" and x[2] == "segment_recv":
                        got_b.add(x[3]["off"], x[3]["off"] + x[3]["len"])
                if any(x[0] == "ind" and x[1] == "dst" and x[2] == "eof_recv" for x in log[:pos]) and any(x[0] == "ind" and x[1] == "dst" and x[2] == "metadata_recv" for x in log[:pos]) and (size == 0 or got_b.contains(0, size)):
                    # EOF (No error) accepted and nothing missing: the transfer is complete at the receiver, only its
                    # completion report is pending; a late EOF (cancel) is not required to undo that
                    classes.append("eofcancel-after-complete-data")
                    continue
                effective["dst"] = True
                nxt_fin = next((j for j, x in enumerate(log[pos + 1 :]) if x[0] == "ind" and x[1] == "dst" and x[2] == "finished"), None)
                later_local = [x for x in log[pos + 1 : (pos + 1 + nxt_fin) if nxt_fin is not None else None] if x[0] == "inject" and x[1] == "dst" and x[2] == "cancel" and x[4] is True]
                if later_local:
                    # an accepted local Cancel.request before the completion overrides the EOF's condition and fault location
                    classes.append("eofcancel-overridden-by-local-cancel")
                    continue
                classes.append("eofcancel-delivered")
                if 0 < sent < size:
                    nt = True
                    classes.append("eofcancel-mid-file")
                _check_receiver_completion(vs, s, cfg, log[pos + 1 :], cond, cfg["src_id"][1], "remote", mode, closure, file_at_fin, log, pos)
        if refused_only and not vs:
            twin_case = dict(case)
            twin_case["inject"] = []
            t = sim.Sim(twin_case)
            try:
                t.run(max_steps=6000, max_ticks=40)
                a, b = _trace(t), [x for x in _trace(s)]
                if a != b:
                    d = next((i for i, (x, y) in enumerate(zip(a, b)) if x != y), min(len(a), len(b)))
                    vs.append(verdict("refused-cancel-changes-nothing", f"C12/refused-cancel-changed-run/{injects[0][1][1]}", f"first difference at event {d}: without {str(a[d] if d < len(a) else None)[:150]} / with {str(b[d] if d < len(b) else None)[:150]}"))
            finally:
                t.close()
        summ = sim.summarize(s)
        summ["injects"] = [list(e[1:8]) for _, e in injects]
        return Result(vs, nt, sorted(set(classes)), summ)
    finally:
        s.close()


def _check_receiver_completion(vs, s, cfg, after, cond, loc_value, loc_name, mode, closure, file_at_fin, log, pos):
    """After a cancel took effect at the receiver: Transaction-Finished with the condition, Finished PDU (closure / acknowledged)
    with the condition and the fault location, file deleted iff disposition and incomplete."""
    n_before = sum(1 for x in log[:pos] if x[0] == "ind" and x[1] == "dst" and x[2] == "finished")
    fins = [x[3] for x in after if x[0] == "ind" and x[1] == "dst" and x[2] == "finished"]
    tag = f"{loc_name}/{mode}"
    if not fins:
        vs.append(verdict("receiver-finished-indication", f"C12/dst/no-finished-indication/{tag}/{s.dst.h.step.name}", f"condition {cond}; receiver step {s.dst.h.step.name}, outcome {s.outcome}"))
        return
    f = fins[0]
    if f["cond"] != cond:
        vs.append(verdict("receiver-finished-indication", f"C12/dst/finished-indication-condition/{tag}", f"want {cond} got {f}"))
        return
    if closure or mode == "ACK":
        pdus = [x[3] for x in after if x[0] == "emit" and x[1] == "dst" and sim.pdu_kind(x[3]) == "FIN"]
        if not pdus:
            vs.append(verdict("receiver-finished-pdu", f"C12/dst/no-finished-pdu/{tag}", f"condition {cond}"))
            return
        d = sim.fin_plain(pdus[0].finished_params)
        if d["cond"] != cond:
            vs.append(verdict("receiver-finished-pdu", f"C12/dst/finished-pdu-condition/{tag}", f"want {cond} got {d}"))
        elif _loc_value(d["fault_loc"]) != loc_value:
            vs.append(verdict("fault-location", f"C12/dst/fault-location/{tag}", f"want entity {loc_value} ({loc_name}) got {d['fault_loc']}"))
    # disposition
    fbytes = file_at_fin.get(n_before, "unknown")
    final = s.dest_bytes()
    incomplete = f["delivery"] == 1
    should_delete = bool(cfg["disposition"]) and incomplete
    named = any(x[0] == "ind" and x[1] == "dst" and x[2] == "metadata_recv" for x in log) and s.content is not None
    if named:
        if should_delete:
            if final is not None:
                vs.append(verdict("disposition", f"C12/dst/incomplete-file-kept/{tag}", f"disposition on cancellation set, delivery incomplete, file still has {len(final)} bytes"))
            elif f["status"] != 0:
                vs.append(verdict("disposition", f"C12/dst/status-after-delete/{tag}", f"file deleted but status {f['status']}"))
        else:
            if final is None and s.outcome == "done" and len([x for x in log if x[0] == "ind" and x[1] == "dst" and x[2] == "finished"]) == n_before + 1:
                vs.append(verdict("disposition", f"C12/dst/file-deleted-without-disposition/{tag}/{'incomplete' if incomplete else 'complete'}", f"disposition {cfg['disposition']}, delivery {f['delivery']}"))
            if f["status"] == 0:
                vs.append(verdict("disposition", f"C12/dst/status-discarded-without-delete/{tag}", str(f)))


def replay(case):
    return evaluate(case).verdicts


# ------------------------------------------------------------------ generation
def _cfg(mode, closure, disposition, csum):
    return {"mode": mode, "closure": closure, "disposition": disposition, "crc_type": csum, "max_seg": SEG, "max_pkt": 64, "ack_limit": 2, "nak_limit": 2, "check_limit": 2}


def _ncalls(case):
    s = sim.Sim(case)
    try:
        s.run(max_steps=4000, max_ticks=20)
        return s.src.ncalls, s.dst.ncalls
    finally:
        s.close()


def exhaustive_cases(shard, nshards, tier):
    idx = 0
    csums = ["CRC_32", "MODULAR"] if tier == "quick" else ["CRC_32", "CRC_32C", "MODULAR", "NULL_CHECKSUM"]
    sizes = [None, 0, 3, 2 * SEG + 1, 4 * SEG]
    variants = []
    for mode, closure, disp, csum, size in itertools.product(["ACK", "NAK"], [False, True], [False, True], csums, sizes):
        variants.append((mode, closure, disp, csum, size, None))
    # one link fault, so that cancels meet a receiver with missing data / missing metadata and a sender that retransmits
    for mode, disp, fault in itertools.product(["ACK", "NAK"], [False, True], [["FD", 1, "drop", 0], ["MD", 0, "drop", 0], ["EOF", 0, "drop", 0], ["FD", 0, "delay", 3]]):
        for size in (2 * SEG + 1, 4 * SEG):
            variants.append((mode, True, disp, "CRC_32", size, fault))
    for mode, closure, disp, csum, size, fault in variants:
        base = {"cfg": _cfg(mode, closure, disp, csum), "file": None if size is None else {"pat": b"\x41\x42\x43\x44\x45\x46\x47", "size": size}}
        if fault is not None:
            base["faults"] = [fault]
            base["cfg"] = dict(base["cfg"], immediate_nak=(size == 4 * SEG))
        ns, nd = _ncalls(base)
        for side, n in (("src", ns), ("dst", nd)):
            for k in range(1, n + 2):
                for right in (True, False, "seq", "src"):
                    idx += 1
                    if idx % nshards != shard:
                        continue
                    c = dict(base)
                    c["inject"] = [[side, k, "cancel", right]]
                    yield c
        conds = CANCEL_CONDS if csum == "CRC_32" else CANCEL_CONDS[:3]
        for k in range(1, nd + 2):
            for cond in conds:
                idx += 1
                if idx % nshards != shard:
                    continue
                c = dict(base)
                c["inject"] = [["dst", k, "eofcancel", cond]]
                yield c
            # crossing cancellations: the EOF (cancel) is followed by a local Cancel.request 1 or 2 calls later
            for gap in (1, 2):
                idx += 1
                if idx % nshards != shard:
                    continue
                c = dict(base)
                c["inject"] = [["dst", k, "eofcancel", "FILESTORE_REJECTION"], ["dst", k + gap, "cancel", True]]
                yield c


@st.composite
def sampled_case(draw):
    cfg = draw(S.cfgs(vary_limits=True, max_limit=3))
    f = draw(S.file_specs(cfg, max_bytes=800, max_segments=12, allow_none=True))
    case = {"cfg": cfg, "file": f}
    case["faults"] = draw(S.fault_schedules(max_faults=3, actions=("drop", "dup", "delay", "hold")))
    inj = []
    for _ in range(draw(st.integers(1, 2))):
        side = draw(st.sampled_from(["src", "dst"]))
        k = draw(st.integers(1, 30))
        if side == "dst" and draw(st.integers(0, 3)) == 0:
            inj.append(["dst", k, "eofcancel", draw(st.sampled_from(CANCEL_CONDS))])
        else:
            inj.append([side, k, "cancel", draw(st.sampled_from([True, True, True, False, "seq", "src"]))])
    case["inject"] = inj
    if draw(st.integers(0, 3)) == 0:
        case["pacing"] = draw(S.pacing_scripts(max_len=20))
    if f is not None and draw(st.integers(0, 3)) == 0:
        case["dest_kind"] = draw(st.sampled_from(["dir", "existing", "dir_existing"]))
    return case


PARAMS = {"quick": 700, "thorough": 15000}


def shard(ctx):
    models.selfcheck()
    out = Out()
    enum_search(out, ctx["known"], exhaustive_cases(ctx["shard"], ctx["nshards"], ctx["tier"]), evaluate, stop_after=15)
    out.extra["exhaustive_cases"] = out.evaluations
    out.extra["exhaustive_part"] = "mode x closure x disposition x checksum type {CRC_32, MODULAR} (all four thorough) x size {metadata-only, 0, 3, 9, 16} x every call index of either side x cancel with the right id / a foreign id / same sequence number from another entity / same entity with another sequence number; EOF (cancel) with 10 conditions (3 for non-CRC_32) before every receiver call; the same with one link fault (FD dropped / delayed, Metadata dropped, EOF dropped) for two sizes"
    out.exhaustive = False
    hyp_search(out, ctx["known"], sampled_case(), evaluate, PARAMS[ctx["tier"]], ctx["seed"])
    sim.cleanup_sandbox()
    return out


def selftest(merged, tier):
    c = merged["classes"]
    for k in ("cancel:src:accepted", "cancel:src:refused", "cancel:dst:accepted", "cancel:dst:refused", "sender-cancel-mid-file", "receiver-cancel-mid-file", "eofcancel-delivered", "eofcancel-mid-file", "refused-while-active", "mode:ACK", "mode:NAK", "disposition"):
        if c.get(k, 0) < 5:
            return f"class {k} nearly empty: {c.get(k, 0)}"
    return None
