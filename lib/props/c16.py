"""C16 - all file access goes through the user-supplied virtual filestore."""
from __future__ import annotations

import os

from hypothesis import strategies as st

from .. import models, sim
from .. import strategies as S
from ..core import Out, Result, hyp_search, verdict
from ..memfs import MEM_ROOT, HostAudit, MemFilestore

ID = "C16"
LEVEL = "exploration"
TECHNIQUE = (
    "differential execution of Hypothesis-generated transfers (all modes, fault schedules with retransmission, cancels) on the native filestore and on "
    "a purely in-memory VirtualFilestore whose paths do not exist on the host, plus attribution of every host file-system call (open, os.stat, "
    "os.remove, ...) made during handler calls to its calling module"
)
LEVEL_TEXT = (
    "Every generated transfer (C02 / C03 style: both modes, closure, four checksum types, fault schedules causing NAKs and retransmissions, cancel "
    "requests at either side, destination given as file / directory / existing file) is run twice: with NativeFilestore in a sandbox and with two "
    "in-memory filestores (one per entity). The observable traces (PDUs, indications, fault callbacks, exceptions, outcome, resulting file) must "
    "be equal up to the path prefix, the host sandbox must be untouched by the in-memory run, and during both runs no host file-system call may "
    "originate from a frame of cfdppy.handler.*."
)
LEVEL_NOTE = (
    "Sampled. The in-memory filestore mirrors NativeFilestore's documented behaviour for the methods the handlers use and computes checksums with the "
    "independent reference implementations. The audit wraps builtins.open / io.open and the os functions pathlib uses; C-level access that bypasses "
    "those names would not be seen (none exists in a pure-Python package)."
)
RULE = (
    "case = configuration + file + fault schedule + optional cancel injection + destination shape. Non-trivial: the transfer carried >= 1 File Data "
    "PDU; retransmission and cancel-time checksum classes are counted. Distinct = distinct (configuration class, size class, faults, injection)."
)
ASSUMPTIONS = [
    "file names inside Metadata PDUs and indications are compared after replacing the sandbox / in-memory root by a placeholder",
    "the two entities of the in-memory run have separate filestore objects (source file only at the sender, destination only at the receiver)",
]


@st.composite
def case_strategy(draw):
    cfg = draw(S.cfgs(vary_limits=True, max_limit=3))
    f = draw(S.file_specs(cfg, max_bytes=1500, max_segments=14, allow_none=True))
    case = {"cfg": cfg, "file": f}
    if draw(st.integers(0, 2)):
        case["faults"] = draw(S.fault_schedules(max_faults=4, actions=("drop", "drop", "dup", "delay", "hold")))
    if draw(st.integers(0, 3)) == 0:
        case["inject"] = [[draw(st.sampled_from(["src", "src", "dst"])), draw(st.integers(1, 14)), "cancel", True]]
    if f is not None:
        case["dest_kind"] = draw(st.sampled_from(["file", "file", "dir", "existing", "dir_existing"]))
    if draw(st.integers(0, 3)) == 0:
        case["pacing"] = draw(S.pacing_scripts(max_len=16))
    return case


def _norm(sv, root):
    return sv.replace(root, "<ROOT>") if isinstance(sv, str) else sv


def _trace(s, root):
    out = []
    for e in s.tlog:
        k = e[0]
        if k in ("emit", "entity_emit"):
            kind = sim.pdu_kind(e[3])
            if kind == "MD":
                d = sim.pdu_desc(e[3])
                d["src"], d["dst"] = _norm(d["src"], root), _norm(d["dst"], root)
                out.append((k, e[1], kind, str(sorted(d.items()))))
            else:
                out.append((k, e[1], kind, e[4].hex()))
        elif k == "ind":
            d = {kk: _norm(vv, root) for kk, vv in e[3].items()}
            out.append(("ind", e[1], e[2], str(sorted(d.items(), key=lambda kv: kv[0]))))
        elif k == "fault":
            out.append(tuple(e[:6]))
        elif k == "exc":
            out.append(("exc", e[1], e[3], e[4]))
        elif k == "inject":
            out.append(tuple(e[:5]))
        elif k in ("call", "tick", "link", "put"):
            out.append(tuple(e[:4]) if k != "tick" else ("tick",))
    out.append(("outcome", s.outcome))
    got = s.dest_bytes()
    out.append(("file", None if got is None else got.hex()))
    return out


def evaluate(case):
    cfg = sim.norm_cfg(case["cfg"])
    vs = []
    audit = HostAudit()
    # 1. native run (audited)
    a = sim.Sim(case, name="c16")
    try:
        with audit:
            a.run(max_steps=5000, max_ticks=40)
        ta = _trace(a, str(a.root))
        nfd = sum(1 for p in a.emitted("src") if sim.pdu_kind(p) == "FD")
        retx = any(sim.pdu_kind(p) == "NAK" for p in a.emitted("dst")) and nfd > 0
        cancel_eof = any(sim.pdu_kind(p) == "EOF" and int(p.condition_code) != 0 for p in a.emitted("src"))
        outcome_a = a.outcome
        content = a.content
    finally:
        a.close()
    native_records = list(audit.records)
    # 2. in-memory run (audited); the host sandbox must stay as it is
    base = sim.sandbox_base()
    smem, dmem = MemFilestore(), MemFilestore()
    audit2 = HostAudit()
    b = sim.Sim(case, name="c16", src_vfs=smem, dst_vfs=dmem)
    (base / "canary.bin").write_bytes(b"canary")
    before = sim.tree_snapshot(base)
    try:
        with audit2:
            b.run(max_steps=5000, max_ticks=40)
        tb = _trace(b, str(os.path.join(MEM_ROOT, "c16")))
        after = sim.tree_snapshot(base)
        mem_exists = os.path.exists(MEM_ROOT)
    finally:
        b.close()
    for rec in native_records + audit2.records:
        vs.append(verdict("no-host-access-from-handlers", f"C16/host-access/{rec[1]}:{rec[2]}/{rec[0]}", f"{rec[0]}({rec[3]}) called from {rec[1]}:{rec[2]}"))
        break
    if ta != tb:
        d = next((i for i, (x, y) in enumerate(zip(ta, tb)) if x != y), min(len(ta), len(tb)))
        x = ta[d] if d < len(ta) else None
        y = tb[d] if d < len(tb) else None
        kx = None if x is None else x[0]
        ky = None if y is None else y[0]
        what = f"{kx}-vs-{ky}"
        if ky == "exc" or kx == "exc":
            e = y if ky == "exc" else x
            what = f"exception/{e[1]}/{e[2]}"
        elif kx == ky == "emit":
            what = f"emit/{x[1]}/{x[2]}-vs-{y[2]}"
        elif kx == ky == "put":
            what = "put-request"
        vs.append(verdict("same-behaviour-on-memory-filestore", f"C16/differs/{what}", f"event {d}: native {str(x)[:200]} / in-memory {str(y)[:200]}"))
    if before != after or mem_exists:
        vs.append(verdict("host-untouched", "C16/host-changed-by-memory-run", f"sandbox changed: {sorted(set(after) ^ set(before))[:5]}; {MEM_ROOT} exists: {mem_exists}"))
    mode = sim.eff_mode(cfg)
    classes = [f"mode:{mode}", f"csum:{cfg['crc_type']}", f"outcome:{outcome_a}"]
    if nfd:
        classes.append("with-file-data")
    if retx:
        classes.append("retransmission")
    if cancel_eof:
        classes.append("cancel-time-checksum")
    if case.get("dest_kind") in ("dir", "existing"):
        classes.append(f"dest:{case['dest_kind']}")
    if content is None:
        classes.append("metadata-only")
    seg = S.eff_seg_len(cfg)
    key = (mode, sim.eff_closure(cfg), cfg["crc_type"], S.size_class(None if content is None else len(content), seg), str(case.get("faults")), str(case.get("inject")), case.get("dest_kind"))
    return Result(vs, nfd >= 1, classes, {"native_outcome": outcome_a, "file_data_pdus": nfd, "host_calls_from_handlers": (native_records + audit2.records)[:5], "mem_calls": [c[0] for c in (smem.calls + dmem.calls)][:30]}, nt_key=key)


def replay(case):
    return evaluate(case).verdicts


PARAMS = {"quick": 900, "thorough": 15000}


def shard(ctx):
    models.selfcheck()
    out = Out()
    hyp_search(out, ctx["known"], case_strategy(), evaluate, PARAMS[ctx["tier"]], ctx["seed"])
    sim.cleanup_sandbox()
    return out


def selftest(merged, tier):
    c = merged["classes"]
    for k in ("with-file-data", "retransmission", "cancel-time-checksum", "mode:ACK", "mode:NAK", "dest:dir", "dest:existing", "metadata-only", "outcome:done"):
        if c.get(k, 0) < 10:
            return f"class {k} nearly empty: {c.get(k, 0)}"
    return None
