"""C07 - the source emits a conformant, complete and size-bounded PDU stream."""
from __future__ import annotations

import copy

from hypothesis import strategies as st
from spacepackets.cfdp import ConditionCode
from spacepackets.cfdp.pdu import AckPdu, DirectiveType, FinishedPdu, TransactionStatus
from spacepackets.cfdp.pdu.finished import DeliveryCode, FileStatus, FinishedParams
from spacepackets.cfdp.pdu.helper import PduFactory

from .. import models, sim
from .. import strategies as S
from ..core import Out, Result, hyp_search, verdict

ID = "C07"
LEVEL = "exploration"
TECHNIQUE = "Hypothesis-generated configurations and files; emitted PDU stream compared with an independently derived tiling, header and size model"
LEVEL_TEXT = (
    "Samples configurations with max_packet_len sitting on every arithmetic edge (minimum +0..+8), all id/sequence widths, "
    "CRC on/off, any max_file_segment_len and file sizes around multiples of the effective segment length; the stream of a "
    "lone SourceHandler is checked PDU by PDU against an independent model (header bytes re-parsed by hand, CRC-16 "
    "recomputed, reference file checksums)."
)
LEVEL_NOTE = "Sampled. Trusts the header/PDU size arithmetic of lib/models.py (re-derived from CCSDS 727.0-B-5) and the reference checksums."
RULE = (
    "case = configuration + file spec (+ message-to-user options); the source is driven alone with state_machine(None) until the EOF, "
    "then (acknowledged mode / closure) fed the ACK(EOF) and a Finished PDU to obtain its ACK. Non-trivial: >= 2 File Data PDUs or a "
    "boundary size (size mod eff in {0, 1, eff-1}); distinct = distinct (widths, CRC, mode, closure, checksum, segment-limit source, size "
    "class, packet-length slack) tuple."
)
ASSUMPTIONS = [
    "max_packet_len >= the minimum that fits the fixed-size PDUs (DESIGN 3.6)",
    "metadata-only requests emit only the Metadata PDU (documented special case); the EOF clauses apply to file requests",
    "Metadata PDU length is not bounded by max_packet_len (the statement bounds File Data, EOF and ACK PDUs only)",
]


def crc16_ccitt_false(data: bytes) -> int:
    c = 0xFFFF
    for b in data:
        c ^= b << 8
        for _ in range(8):
            c = ((c << 1) ^ 0x1021) & 0xFFFF if c & 0x8000 else (c << 1) & 0xFFFF
    return c


def parse_header(raw: bytes):
    b0 = raw[0]
    d = {
        "version": b0 >> 5,
        "type": (b0 >> 4) & 1,
        "dir": (b0 >> 3) & 1,
        "mode": (b0 >> 2) & 1,
        "crc": (b0 >> 1) & 1,
        "large": b0 & 1,
        "dlen": (raw[1] << 8) | raw[2],
        "idw": ((raw[3] >> 4) & 7) + 1,
        "seqw": (raw[3] & 7) + 1,
    }
    p = 4
    d["src"] = int.from_bytes(raw[p : p + d["idw"]], "big")
    p += d["idw"]
    d["seq"] = int.from_bytes(raw[p : p + d["seqw"]], "big")
    p += d["seqw"]
    d["dst"] = int.from_bytes(raw[p : p + d["idw"]], "big")
    p += d["idw"]
    d["hlen"] = p
    return d


@st.composite
def case_strategy(draw):
    cfg = draw(S.cfgs(pkt_slack=st.one_of(st.integers(0, 8), st.integers(0, 8), st.integers(0, 300))))
    case = {"cfg": cfg, "file": draw(S.file_specs(cfg, max_bytes=4096, allow_none=True))}
    if draw(st.integers(0, 4)) == 0:
        case["msgs"] = draw(st.lists(S.user_messages(), max_size=3))
    if draw(st.integers(0, 3)) == 0:
        # the same SourceHandler (and its filestore object) first carried another complete transfer
        case["before"] = {"file": draw(st.one_of(st.none(), S.file_specs(cfg, max_bytes=700))), "req_mode": draw(st.sampled_from([None, "ACK", "NAK"])), "req_closure": draw(st.sampled_from([None, True, False]))}
    return case


def evaluate(case):
    if case.get("large"):
        return eval_large(case)
    cfg = sim.norm_cfg(case["cfg"])
    sess = None
    if case.get("before"):
        sim.install_clock()
        sim.CLOCK.reset()
        sess = sim.Session(cfg, "t")
        b = case["before"]
        c0 = dict(cfg)
        c0["req_mode"], c0["req_closure"] = b.get("req_mode"), b.get("req_closure")
        ps = sim.Sim({"cfg": c0, "file": b["file"]}, session=sess, fresh_clock=False)
        ps.run(max_steps=4000, max_ticks=12)
        if ps.outcome != "done":
            sess.close()
            return Result([], False, ["earlier-transfer-did-not-end"], {})
    s = sim.Sim(case, session=sess, fresh_clock=sess is None)
    try:
        r = _evaluate(case, cfg, s)
        if sess is not None:
            r.classes.append("after-earlier-transfer")
        return r
    finally:
        s.close()
        if sess is not None:
            sess.close()


def _evaluate(case, cfg, s):
    vs = []
    content = s.content
    mode, closure = sim.eff_mode(cfg), sim.eff_closure(cfg)
    w, sw, crc = sim.id_width(cfg), cfg["seq_width"] // 8, cfg["pdu_crc"]
    eff = S.eff_seg_len(cfg)
    h = s.src.h
    try:
        ok = h.put_request(s.make_put_request())
    except Exception as e:  # noqa: BLE001
        return Result([verdict("put", f"C07/put-raised/{type(e).__name__}", repr(e))], False)
    per_call = []
    stream = []
    n_expected = 0 if content is None else (len(content) + eff - 1) // eff
    for _ in range(n_expected + 6):
        out = s.src.call(None)
        per_call.append(out)
        stream.extend(out)
        if any(sim.pdu_kind(p) == "EOF" for p in out) or s.src.internal_error or s.src.idle():
            break
    tag = f"{mode}/{'mdonly' if content is None else 'file'}"
    excs = s.excs()
    if excs:
        e = excs[0]
        return Result([verdict("stream", f"C07/exception/{e[3]}/{tag}", e[5])], False, ["exception"], sim.summarize(s))
    raws = [e[4] for e in s.tlog if e[0] == "emit" and e[1] == "src"]
    orig = [e[3] for e in s.tlog if e[0] == "emit" and e[1] == "src"]
    # optional ACK of Finished
    ack_raw = None
    if content is not None and (mode == "ACK" or closure) and not s.src.idle():
        conf = copy.copy(h.pdu_conf)
        if mode == "ACK":
            s.src.call(AckPdu(conf, DirectiveType.EOF_PDU, ConditionCode.NO_ERROR, TransactionStatus.ACTIVE))
        fin = FinishedPdu(copy.copy(h.pdu_conf), FinishedParams(ConditionCode.NO_ERROR, DeliveryCode.DATA_COMPLETE, FileStatus.FILE_RETAINED))
        out = s.src.call(fin)
        acks = [e for e in s.tlog if e[0] == "emit" and e[1] == "src" and sim.pdu_kind(e[3]) == "ACK_FIN"]
        if mode == "ACK":
            if len(acks) != 1:
                vs.append(verdict("ack-of-finished", f"C07/ack-fin-count/{len(acks)}", ""))
            else:
                ack_raw = acks[0][4]
    kinds = [sim.pdu_kind(p) for p in stream]
    # --- order and shape
    if not kinds or kinds[0] != "MD" or kinds.count("MD") != 1:
        vs.append(verdict("metadata-first", f"C07/metadata-not-first/{tag}", str(kinds[:6])))
        return Result(vs, False, [], sim.summarize(s))
    if len(per_call[0]) != 1:
        vs.append(verdict("metadata-first", f"C07/first-call-emits/{len(per_call[0])}", str(kinds[:6])))
    md = stream[0]
    if content is None:
        if kinds != ["MD"]:
            vs.append(verdict("metadata-only", f"C07/metadata-only-stream/{'-'.join(kinds[:4])}", ""))
        if md.source_file_name is not None or md.dest_file_name is not None:
            vs.append(verdict("metadata-fields", "C07/metadata-only-names", ""))
        if md.file_size != 0:
            # no file is involved: the size field of the request's Metadata PDU is zero
            vs.append(verdict("metadata-fields", "C07/metadata-only-size", f"{md.file_size}"))
    else:
        want_kinds = ["MD"] + ["FD"] * n_expected + ["EOF"]
        if kinds != want_kinds:
            vs.append(verdict("stream-shape", f"C07/stream-shape/{tag}", f"want MD,{n_expected}xFD,EOF got {kinds[:8]}..{kinds[-3:]} ({len(kinds)})"))
        for i, out in enumerate(per_call):
            nfd = sum(1 for p in out if sim.pdu_kind(p) == "FD")
            if nfd > 1:
                vs.append(verdict("one-fd-per-call", "C07/several-fd-per-call", f"call {i}: {nfd}"))
                break
        pos = 0
        fds = [p for p in stream if sim.pdu_kind(p) == "FD"]
        for i, p in enumerate(fds):
            L = len(p.file_data)
            if p.offset != pos:
                vs.append(verdict("tiling", "C07/tiling-offset", f"FD {i}: offset {p.offset} want {pos}"))
                break
            if L < 1 or L > eff:
                vs.append(verdict("segment-length", f"C07/segment-length/{'zero' if L < 1 else 'too-long'}", f"FD {i}: len {L} eff {eff}"))
                break
            if i < len(fds) - 1 and L != eff:
                vs.append(verdict("segment-length", "C07/short-inner-segment", f"FD {i}: len {L} eff {eff}"))
                break
            if bytes(p.file_data) != content[pos : pos + L]:
                vs.append(verdict("content", "C07/content-differs", f"FD {i} at {pos}"))
                break
            pos += L
        else:
            if pos != len(content):
                vs.append(verdict("tiling", "C07/tiling-incomplete", f"covered {pos} of {len(content)}"))
        eofs = [p for p in stream if sim.pdu_kind(p) == "EOF"]
        if len(eofs) == 1:
            e = eofs[0]
            want = models.ref_checksum(cfg["crc_type"], content)
            if int(e.condition_code) != 0 or e.file_size != len(content):
                vs.append(verdict("eof", "C07/eof-size-or-condition", f"cond {e.condition_code} size {e.file_size} want {len(content)}"))
            if bytes(e.file_checksum) != want:
                vs.append(verdict("eof", f"C07/eof-checksum/{cfg['crc_type']}", f"{bytes(e.file_checksum).hex()} want {want.hex()}"))
        # metadata fields
        if md.file_size != len(content):
            vs.append(verdict("metadata-fields", "C07/metadata-size", f"{md.file_size} want {len(content)}"))
        if md.source_file_name != s.src_path.as_posix() or md.dest_file_name != s.dest_arg.as_posix():
            vs.append(verdict("metadata-fields", "C07/metadata-names", f"{md.source_file_name} {md.dest_file_name}"))
        if sim.CSUM_NAMES.get(md.checksum_type) != cfg["crc_type"]:
            vs.append(verdict("metadata-fields", "C07/metadata-checksum-type", f"{md.checksum_type} want {cfg['crc_type']}"))
    if bool(md.closure_requested) != closure:
        vs.append(verdict("metadata-fields", "C07/metadata-closure-flag", f"{md.closure_requested} want {closure}"))
    # --- per-PDU header, CRC, size, round trip
    seq0 = None
    all_raws = list(zip(raws, [sim.pdu_kind(p) for p in orig]))
    if ack_raw is not None:
        all_raws.append((ack_raw, "ACK_FIN"))
    for i, (raw, k) in enumerate(all_raws):
        hd = parse_header(raw)
        want_mode = 0 if mode == "ACK" else 1
        problems = []
        if hd["version"] != 1:
            problems.append("version")
        if hd["type"] != (1 if k == "FD" else 0):
            problems.append("pdu-type")
        if hd["dir"] != 0:
            problems.append("direction")
        if hd["mode"] != want_mode:
            problems.append("mode")
        if hd["crc"] != (1 if crc else 0):
            problems.append("crc-flag")
        if hd["idw"] != w:
            problems.append("id-width")
        if hd["seqw"] != sw:
            problems.append("seq-width")
        if hd["src"] != cfg["src_id"][1] or hd["dst"] != cfg["dst_id"][1]:
            problems.append("entity-ids")
        if seq0 is None:
            seq0 = hd["seq"]
        elif hd["seq"] != seq0:
            problems.append("seq-num-changes")
        if hd["hlen"] != models.header_len(w, sw):
            problems.append("header-len")
        if hd["dlen"] != len(raw) - hd["hlen"]:
            problems.append("data-field-length")
        if hd["large"] != 0:
            problems.append("large-flag")
        if problems:
            vs.append(verdict("header", f"C07/header/{k}/{'+'.join(problems)}", f"PDU {i}: {hd}"))
            break
        if crc and crc16_ccitt_false(raw[:-2]) != int.from_bytes(raw[-2:], "big"):
            vs.append(verdict("crc", f"C07/crc16/{k}", f"PDU {i}"))
            break
        if k in ("FD", "EOF", "ACK_FIN") and len(raw) > cfg["max_pkt"]:
            vs.append(verdict("max-packet-len", f"C07/too-long/{k}", f"PDU {i}: {len(raw)} > {cfg['max_pkt']}"))
            break
        try:
            back = PduFactory.from_raw(raw)
            again = bytes(back.pack())
        except Exception as ex:  # noqa: BLE001
            vs.append(verdict("parsable", f"C07/unparsable/{k}/{type(ex).__name__}", f"PDU {i}: {ex!r}"))
            break
        if again != raw:
            vs.append(verdict("parsable", f"C07/roundtrip-differs/{k}", f"PDU {i}"))
            break
    # the provider's value for this transaction: its start value plus the number of transactions the handler carried before
    want_seq = (cfg["seq_start"] + (1 if case.get("before") else 0)) % (1 << cfg["seq_width"])
    if seq0 is not None and seq0 != want_seq:
        vs.append(verdict("header", "C07/seq-num-not-providers", f"{seq0} want {want_seq}"))
    for e in s.tlog:
        if e[0] == "emit_error":
            vs.append(verdict("parsable", f"C07/emit-error/{e[3]}", e[4]))
    size = None if content is None else len(content)
    nfd = kinds.count("FD")
    nt = nfd >= 2 or (size is not None and size > 0 and size % eff in (0, 1, eff - 1))
    slack = cfg["max_pkt"] - sim.min_packet_len(cfg)
    key = (w, sw, crc, mode, closure, cfg["crc_type"], "cfg" if (cfg["max_seg"] is not None and cfg["max_seg"] == eff) else "derived",
           S.size_class(size, eff), min(slack, 9))
    classes = [f"size:{key[7]}", f"seg-from:{key[6]}", f"slack:{key[8]}", f"idw:{w}", f"seqw:{sw}", f"crc:{crc}", f"mode:{mode}"]
    if ack_raw is not None:
        classes.append("ack-of-finished-checked")
    return Result(vs, nt, classes, {"kinds": kinds[:6] + kinds[-2:], "n_fd": nfd, "eff": eff, "size": size, "max_pkt": cfg["max_pkt"]}, nt_key=(key, nfd))


# ------------------------------------------------------------------ files around and beyond 4 GiB (64-bit PDUs)
class _SparseStore:
    """Factory for an in-memory filestore that *claims* one file of the given size and reads zeros on demand."""

    @staticmethod
    def make(size):
        from ..memfs import MEM_ROOT, MemFilestore

        class Sparse(MemFilestore):
            big = MEM_ROOT + "/big.bin"

            def file_exists(self, path):
                return str(path) == self.big or super().file_exists(path)

            def file_size(self, f):
                return size

            def read_data(self, file, offset, read_len=None):
                return bytes(max(0, min(read_len, size - offset)))

        return Sparse()


def eval_large(case):
    """The source stream of a file whose size sits on / beyond the 32-bit boundary: large-file flag on every PDU iff the
    size needs 64 bits, 64-bit size / offset fields, contiguous tiling, lengths within max_packet_len."""
    from pathlib import Path

    from cfdppy.request import PutRequest
    from spacepackets.util import UnsignedByteField

    cfg = sim.norm_cfg(case["cfg"])
    size = case["size"]
    vfs = _SparseStore.make(size)
    rig = sim.source_rig(cfg, vfs=vfs)
    w, sw, crc = sim.id_width(cfg), cfg["seq_width"] // 8, cfg["pdu_crc"]
    large = size > 0xFFFFFFFF
    eff = cfg["max_pkt"] - models.fd_overhead(w, sw, crc, large)
    if cfg["max_seg"] is not None and cfg["max_seg"] < eff:
        eff = cfg["max_seg"]
    vs = []
    try:
        rig.h.put_request(PutRequest(UnsignedByteField(cfg["dst_id"][1], cfg["dst_id"][0]), Path(vfs.big), Path("/__cfdp_mem__/d.bin"), sim.MODES[sim.eff_mode(cfg)], False))
    except Exception as e:  # noqa: BLE001
        return Result([verdict("put", f"C07/large/put-raised/{type(e).__name__}", repr(e))], True, ["large"])
    nxt, nfd, eof, md = 0, 0, None, None
    for _ in range(size // max(eff, 1) + 10):
        res = rig.call(None)
        if res.exc is not None:
            vs.append(verdict("stream", f"C07/large/exception/{type(res.exc).__name__}", repr(res.exc)[:200]))
            break
        stop = False
        for p in res.out:
            k = sim.pdu_kind(p)
            if int(p.pdu_header.pdu_conf.file_flag) != (1 if large else 0) and not vs:
                vs.append(verdict("large-file-flag", f"C07/large/file-flag/{k}/{'needs64' if large else 'fits32'}", f"size {size}: {k} PDU has large-file flag {int(p.pdu_header.pdu_conf.file_flag)}"))
            if k == "FD":
                ln = len(p.file_data)
                if p.offset != nxt or ln < 1 or ln > eff or (nxt + ln < size and ln != eff):
                    if not vs:
                        vs.append(verdict("tiling", "C07/large/tiling", f"FD offset {p.offset} len {ln}, expected offset {nxt}, segment {eff}, size {size}"))
                if nfd < 2 or nxt + ln >= size or nfd % 9973 == 0:
                    raw = bytes(p.pack())
                    if len(raw) > cfg["max_pkt"] and not vs:
                        vs.append(verdict("max-packet-len", "C07/large/fd-too-long", f"{len(raw)} > {cfg['max_pkt']}"))
                    if len(raw) != models.fd_overhead(w, sw, crc, large) + ln and not vs:
                        vs.append(verdict("conformant", "C07/large/fd-length", f"{len(raw)} != overhead {models.fd_overhead(w, sw, crc, large)} + {ln}"))
                nxt += ln
                nfd += 1
            elif k == "MD":
                md = p
            elif k == "EOF":
                eof = p
                stop = True
        if stop or vs or rig.h.states.state.name == "IDLE":
            break
    if not vs:
        if md is None or md.file_size != size:
            vs.append(verdict("metadata", "C07/large/metadata-size", f"{None if md is None else md.file_size} want {size}"))
        elif eof is None or eof.file_size != size or nxt != size:
            vs.append(verdict("eof", "C07/large/eof-size", f"EOF {None if eof is None else eof.file_size}, file data up to {nxt}, want {size}"))
        elif len(bytes(eof.pack())) != models.eof_len(w, sw, crc, large):
            vs.append(verdict("conformant", "C07/large/eof-length", f"{len(bytes(eof.pack()))} want {models.eof_len(w, sw, crc, large)}"))
    return Result(vs, True, ["large", "large:needs64" if large else "large:fits32"], {"size": size, "file_data_pdus": nfd, "segment": eff})


def large_cases(shard, nshards):
    idx = 0
    for size in (0xFFFFFFFF - 1, 0xFFFFFFFF, 0x100000000, 0x100000001, 0x100000000 + 70000):
        for w, sw, crc, mode, max_seg in [(1, 8, False, "NAK", None), (2, 16, True, "ACK", None), (8, 32, False, "NAK", 60000), (4, 16, True, "ACK", 65000)]:
            idx += 1
            if idx % nshards != shard:
                continue
            cfg = {"mode": mode, "closure": False, "crc_type": "NULL_CHECKSUM", "max_seg": max_seg, "max_pkt": 65535, "src_id": [w, 1], "dst_id": [w, 2], "seq_width": sw, "pdu_crc": crc}
            yield {"large": True, "size": size, "cfg": cfg}


def replay(case):
    return evaluate(case).verdicts


PARAMS = {"quick": 1500, "thorough": 30000}


def shard(ctx):
    out = Out()
    from ..core import enum_search

    enum_search(out, ctx["known"], large_cases(ctx["shard"], ctx["nshards"]), evaluate)
    out.extra["large_file_cases"] = out.evaluations
    out.extra["large_file_part"] = "sizes 2^32-2, 2^32-1, 2^32, 2^32+1, 2^32+70000 x 4 header configurations, sparse in-memory source file, null checksum"
    hyp_search(out, ctx["known"], case_strategy(), evaluate, PARAMS[ctx["tier"]], ctx["seed"])
    sim.cleanup_sandbox()
    return out


def selftest(merged, tier):
    c = merged["classes"]
    for k in ("slack:0", "slack:1", "size:k*seg", "size:k*seg+1", "seg-from:cfg", "seg-from:derived", "ack-of-finished-checked", "crc:True"):
        if c.get(k, 0) < 20:
            return f"class {k} nearly empty: {c.get(k, 0)}"
    return None
