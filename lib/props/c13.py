"""C13 - unacknowledged transfers tolerate EOF overtaking file data up to the check limit."""
from __future__ import annotations

import itertools

from hypothesis import strategies as st
from spacepackets.cfdp import ConditionCode
from spacepackets.cfdp.pdu import EofPdu, FileDataPdu, FinishedPdu, MetadataParams, MetadataPdu
from spacepackets.cfdp.pdu.file_data import FileDataParams
from spacepackets.cfdp.pdu.finished import DeliveryCode, FileStatus, FinishedParams

from .. import models, sim
from ..core import Out, Result, enum_search, hyp_search, verdict

ID = "C13"
LEVEL = "fault_enumeration"
TECHNIQUE = (
    "complete enumeration of (late-segment subset x arrival slot relative to each check-timer expiry x check limit x closure x checksum type) on "
    "1-3 segment files driven call by call under a virtual clock, plus Hypothesis-generated timelines (ties, duplicates, idle calls, late ticks, "
    "up to 8 segments, limits up to 6); timeline oracle computed independently from the generated timeline"
)
LEVEL_TEXT = (
    "One DestHandler in unacknowledged mode is fed Metadata, the on-time segments, the EOF and then a generated timeline of check-timer expiries, "
    "idle calls and late segments (before / exactly at / after each expiry); a model of the statement computes from the timeline at which expiry "
    "the transfer must succeed (identical file, no error / data complete / file retained, Finished PDU with closure) or at which expiry "
    "(exactly the limit-th) Check Limit Reached must be declared and the transaction end with incomplete data, and that nothing completes before. "
    "One SourceHandler with closure is run to its EOF and then given a Finished PDU before / at / after its check-timer expiry or never."
)
LEVEL_NOTE = (
    "Exhaustive for files of 1-3 segments, limits 1-4 and every assignment of late segments to the slots between expiries; sampled beyond. A late "
    "segment inserted in the very call that notices an expiry may count as before or after that expiry (both accepted). Trusts the reference checksums "
    "and the virtual clock (spacepackets.countdown.time_ms replaced)."
)
RULE = (
    "receiver case = (checksum type, closure, check limit L, n segments, short last segment) + timeline of ops {segment i, EOF, expiry(+extra ms), "
    "expiry carrying segment i, idle call}; sender case = (checksum type, size) + timeline {idle, expiry, Finished(condition), expiry carrying "
    "Finished}. Non-trivial: >= 1 late segment arrives after >= 1 expiry (receiver) or the check timer expiry / a Finished PDU decides the outcome "
    "(sender). Exhaustive cases are distinct by construction, sampled ones by case hash."
)
ASSUMPTIONS = [
    "file contents contain no zero byte, so a hole or a missing tail always differs from the source (a zero-filled segment would make the file complete without its data)",
    "default fault-handler table (Check Limit Reached -> notice of cancellation, checksum failure -> ignored)",
    "metadata-only requests are not part of C13 (no EOF, no check timer)",
]

CL = int(ConditionCode.CHECK_LIMIT_REACHED)


def _content(case):
    raw = models.file_bytes({"pat": case["pat"], "size": case["size"]})
    return bytes((b % 255) + 1 for b in raw)


# ------------------------------------------------------------------ receiver side
def recv_model(case, ties_early):
    """Expected observations from the timeline alone. Returns dict:
    end_op: index of the op whose call must end the transaction (or None), outcome 'success'|'limit'|None"""
    n = case["n"]
    L = case["cfg"]["check_limit"]
    have = set()
    eof = False
    expiries = 0
    for i, op in enumerate(case["timeline"]):
        kind = op if isinstance(op, str) else op[0]
        if kind == "seg":
            have.add(op[1])
        elif kind == "eof":
            if eof:
                continue
            eof = True
            if len(have) == n:
                return {"end_op": i, "outcome": "success", "expiry": 0}
        elif kind in ("tick", "tickseg"):
            if not eof:
                if kind == "tickseg":
                    have.add(op[1])
                continue
            if kind == "tickseg" and ties_early:
                have.add(op[1])
            expiries += 1
            if len(have) == n:
                return {"end_op": i, "outcome": "success", "expiry": expiries}
            if expiries >= L:
                return {"end_op": i, "outcome": "limit", "expiry": expiries}
            if kind == "tickseg" and not ties_early:
                have.add(op[1])
    return {"end_op": None, "outcome": None, "expiry": expiries}


def eval_recv(case):
    cfg = sim.norm_cfg(case["cfg"])
    content = _content(case)
    size, seg, n = case["size"], case["seg"], case["n"]
    root = sim.fresh_dir("c13")
    dest = root / "d.bin"
    rig = sim.dest_rig(cfg)
    h = rig.h
    conf = lambda: sim.pdu_conf_for(cfg, 5, "NAK")
    closure = bool(cfg["closure"])
    csum = models.ref_checksum(cfg["crc_type"], content)

    def seg_pdu(i):
        o = i * seg
        return FileDataPdu(conf(), FileDataParams(content[o : o + seg], o))

    obs = {"fin_op": None, "fin": None, "limit_op": None, "fin_pdus": [], "file_at_fin": None, "extra_fin": 0, "limit_count": 0}
    vs = []
    res = rig.call(MetadataPdu(conf(), MetadataParams(closure, sim.CSUMS[cfg["crc_type"]], size, "/s/src.bin", str(dest))))
    if res.exc is not None:
        return Result([verdict("harness", "C13/metadata-refused", repr(res.exc))], False, ["metadata-refused"], {})
    trace = []
    ended_at = None
    t_last = None
    for i, op in enumerate(case["timeline"] + ["idle", "idle"]):
        kind = op if isinstance(op, str) else op[0]
        pdu = None
        if kind == "seg":
            pdu = seg_pdu(op[1])
        elif kind == "eof":
            pdu = EofPdu(conf(), csum, size)
        elif kind in ("tick", "tickseg"):
            extra = op[2] if kind == "tickseg" else (op[1] if not isinstance(op, str) else 1)
            # the clock is moved by the model: the receiver's check timer (its own interval, not the sender's) runs from
            # the call that handled the EOF and is restarted by every call that notices an expiry
            if t_last is not None:
                sim.CLOCK.now = max(sim.CLOCK.now, t_last + cfg["chk_ms_dst"] + extra)
                t_last = sim.CLOCK.now
            if kind == "tickseg":
                pdu = seg_pdu(op[1])
        elif kind == "almost":
            if t_last is not None and t_last + cfg["chk_ms_dst"] - 1 > sim.CLOCK.now:
                sim.CLOCK.now = t_last + cfg["chk_ms_dst"] - 1
        elif kind == "wait":
            # time passes while the file data is still coming in (before the EOF): no check timer is running yet
            if t_last is None:
                sim.CLOCK.now += op[1]
        if kind == "eof" and t_last is None:
            t_last = sim.CLOCK.now
        res = rig.call(pdu)
        trace.append([kind if isinstance(op, str) else list(op), h.step.name, None if res.exc is None else type(res.exc).__name__, [sim.pdu_kind(p) for p in res.out]])
        if res.exc is not None and not res.lib:
            vs.append(verdict("no-internal-error", f"C13/recv/internal-error/{type(res.exc).__name__}", sim._where(res.exc)))
            break
        for e in res.inds:
            if e[2] == "finished":
                if obs["fin"] is None:
                    obs["fin_op"], obs["fin"] = i, e[3]
                    try:
                        obs["file_at_fin"] = dest.read_bytes()
                    except FileNotFoundError:
                        obs["file_at_fin"] = None
                else:
                    obs["extra_fin"] += 1
        for f in res.faults:
            if f[4] == CL:
                obs["limit_count"] += 1
                if obs["limit_op"] is None:
                    obs["limit_op"] = i
        for p in res.out:
            if sim.pdu_kind(p) == "FIN":
                obs["fin_pdus"].append(sim.fin_plain(p.finished_params))
        if obs["fin"] is not None and ended_at is None:
            ended_at = i
        if ended_at is not None and i >= ended_at + 2:
            break
    exp_a = recv_model(case, True)
    exp_b = recv_model(case, False)
    idle_now = h.states.state.name == "IDLE"

    def matches(exp):
        if exp["outcome"] is None:
            if obs["fin"] is not None or obs["limit_op"] is not None:
                return f"transaction ended at op {obs['fin_op']} ({obs['fin']}) although the timeline gives no reason (check limit {cfg['check_limit']}, expiries {exp['expiry']})"
            return None
        if obs["fin"] is None:
            return f"no completion; expected {exp['outcome']} at op {exp['end_op']} (expiry {exp['expiry']})"
        if obs["fin_op"] != exp["end_op"]:
            return f"completion at op {obs['fin_op']}, expected {exp['outcome']} at op {exp['end_op']} (expiry {exp['expiry']})"
        f = obs["fin"]
        if exp["outcome"] == "success":
            if (f["cond"], f["delivery"], f["status"]) != (0, int(DeliveryCode.DATA_COMPLETE), int(FileStatus.FILE_RETAINED)):
                return f"expected success at expiry {exp['expiry']}, indication says {f}"
            if obs["file_at_fin"] != content:
                return "success reported but the file differs from the source"
            if obs["limit_op"] is not None:
                return "Check Limit Reached declared although the data arrived in time"
        else:
            if obs["limit_op"] != exp["end_op"]:
                return f"Check Limit Reached declared at op {obs['limit_op']}, expected at op {exp['end_op']} (expiry {exp['expiry']} = limit)"
            if f["cond"] != CL or f["delivery"] != int(DeliveryCode.DATA_INCOMPLETE):
                return f"after the check limit the transaction must end with Check Limit Reached / data incomplete, indication says {f}"
        if closure:
            ok = [p for p in obs["fin_pdus"] if p["cond"] == f["cond"] and p["delivery"] == f["delivery"]]
            if not ok:
                return f"closure requested but no Finished PDU matching the completion ({obs['fin_pdus']})"
        if not idle_now:
            return f"handler not idle after the transaction ended (step {h.step.name})"
        return None

    if not vs:
        ma, mb = matches(exp_a), matches(exp_b)
        if ma is not None and mb is not None:
            exp = exp_a
            what = exp["outcome"] or "nothing"
            got = "none" if obs["fin"] is None else ("success" if obs["fin"]["cond"] == 0 and obs["fin"]["delivery"] == 0 else f"cond{obs['fin']['cond']}")
            when = "same-op" if obs["fin_op"] == exp["end_op"] else ("early" if obs["fin_op"] is not None and (exp["end_op"] is None or obs["fin_op"] < exp["end_op"]) else "late-or-never")
            vs.append(verdict("check-limit-timeline", f"C13/recv/expected-{what}/got-{got}/{when}/{'closure' if closure else 'noclosure'}", ma))
        if obs["extra_fin"] or obs["limit_count"] > 1:
            vs.append(verdict("once", "C13/recv/completion-or-limit-reported-twice", f"finished x{1 + obs['extra_fin']}, limit x{obs['limit_count']}"))
    late_after_expiry = False
    eof_seen = False
    exps = 0
    for op in case["timeline"]:
        kind = op if isinstance(op, str) else op[0]
        if kind == "eof":
            eof_seen = True
        elif kind in ("tick", "tickseg") and eof_seen:
            exps += 1
        if kind in ("seg", "tickseg") and eof_seen and exps >= 1:
            late_after_expiry = True
    classes = ["recv", f"outcome:{exp_a['outcome']}", f"L:{cfg['check_limit']}", "closure" if closure else "noclosure", f"csum:{cfg['crc_type']}"]
    if exp_a != exp_b:
        classes.append("tie-decides")
    if any((not isinstance(op, str)) and op[0] == "tickseg" for op in case["timeline"]):
        classes.append("tie")
    if late_after_expiry:
        classes.append("late-after-expiry")
    return Result(vs, late_after_expiry, classes, {"trace": trace[:24], "expected": exp_a, "observed": {k: v for k, v in obs.items() if k != "file_at_fin"}})


# ------------------------------------------------------------------ sender side
def eval_send(case):
    cfg = sim.norm_cfg(case["cfg"])
    content = _content(case)
    root = sim.fresh_dir("c13s")
    srcp = root / "src.bin"
    srcp.write_bytes(content)
    rig = sim.source_rig(cfg)
    h = rig.h
    from spacepackets.util import UnsignedByteField
    from cfdppy.request import PutRequest

    # "a sender that requested closure": by the MIB default, or by the put request over a MIB default of False
    req = PutRequest(
        destination_id=UnsignedByteField(cfg["dst_id"][1], cfg["dst_id"][0]),
        source_file=srcp,
        dest_file=root / "dst.bin",
        trans_mode=sim.MODES["NAK"],
        closure_requested=None if cfg["closure"] else True,
    )
    vs = []
    h.put_request(req)
    eof = None
    for _ in range(case["size"] // max(1, case["seg"]) + 10):
        res = rig.call(None)
        if res.exc is not None:
            return Result([verdict("no-internal-error", f"C13/send/exception-before-eof/{type(res.exc).__name__}", repr(res.exc))], False, ["send"], {})
        for p in res.out:
            if sim.pdu_kind(p) == "EOF":
                eof = p
        if eof is not None:
            break
    if eof is None:
        return Result([verdict("harness", "C13/send/no-eof", "sender never emitted its EOF")], False, ["send"], {})
    tid = sim.tid_plain(h.transaction_id)
    t_eof = sim.CLOCK.now
    conf = lambda: sim.pdu_conf_for(cfg, eof.transaction_seq_num.value, "NAK", direction=sim.Direction.TOWARDS_SENDER)
    trace = []
    decided = None  # ("fin", op) | ("expiry", op) | ("either", op)
    obs = {"fin_ind": None, "fin_op": None, "fault_op": None, "cancel_eof_op": None, "cancel_eof": None, "faults": []}
    for i, op in enumerate(case["timeline"] + ["idle"]):
        kind = op if isinstance(op, str) else op[0]
        pdu = None
        if kind in ("tick", "tickfin"):
            # model-owned clock: the sender's check timer (the sending entity's interval) runs from the call that emitted the EOF
            sim.CLOCK.now = max(sim.CLOCK.now, t_eof + cfg["chk_ms_src"] + (op[-1] if not isinstance(op, str) else 1))
        elif kind == "almost":
            if t_eof + cfg["chk_ms_src"] - 1 > sim.CLOCK.now:
                sim.CLOCK.now = t_eof + cfg["chk_ms_src"] - 1
        if kind in ("fin", "tickfin"):
            cond = op[1]
            fp = FinishedParams(
                condition_code=ConditionCode(cond),
                delivery_code=DeliveryCode.DATA_COMPLETE if cond == 0 else DeliveryCode.DATA_INCOMPLETE,
                file_status=FileStatus.FILE_RETAINED,
            )
            pdu = FinishedPdu(conf(), fp)
        if decided is None:
            if kind == "fin":
                decided = ("fin", i, op[1])
            elif kind == "tick":
                decided = ("expiry", i, None)
            elif kind == "tickfin":
                decided = ("either", i, op[1])
        was_idle = h.states.state.name == "IDLE"
        res = rig.call(pdu)
        trace.append([kind if isinstance(op, str) else list(op), h.step.name, None if res.exc is None else type(res.exc).__name__, [sim.pdu_kind(p) for p in res.out]])
        if res.exc is not None and not res.lib:
            vs.append(verdict("no-internal-error", f"C13/send/internal-error/{type(res.exc).__name__}", sim._where(res.exc)))
            break
        if was_idle:
            continue
        for e in res.inds:
            if e[2] == "finished" and obs["fin_ind"] is None:
                obs["fin_ind"], obs["fin_op"] = e[3], i
        for f in res.faults:
            obs["faults"].append([i, f[2], f[4]])
            if f[4] == CL and obs["fault_op"] is None:
                obs["fault_op"] = i
        for p in res.out:
            if sim.pdu_kind(p) == "EOF" and int(p.condition_code) != 0 and obs["cancel_eof"] is None:
                obs["cancel_eof"], obs["cancel_eof_op"] = int(p.condition_code), i
    if not vs:
        def as_fin(d):
            if obs["fin_op"] != d[1] or obs["fin_ind"] is None:
                return f"Finished PDU delivered at op {d[1]} before the check timer expired, but the sender's user was told at op {obs['fin_op']}"
            if obs["fin_ind"]["cond"] != d[2]:
                return f"indication carries condition {obs['fin_ind']['cond']}, Finished PDU had {d[2]}"
            if obs["fault_op"] is not None or obs["cancel_eof"] is not None:
                return "Check Limit Reached / EOF (cancel) although the Finished PDU arrived in time"
            return None

        def as_expiry(d):
            if obs["fault_op"] != d[1]:
                return f"check timer expired at op {d[1]} without a Finished PDU; Check Limit Reached declared at op {obs['fault_op']}"
            if obs["cancel_eof"] != CL or obs["cancel_eof_op"] != d[1]:
                return f"no EOF (cancel, Check Limit Reached) emitted by the call noticing the expiry (got {obs['cancel_eof']} at op {obs['cancel_eof_op']})"
            if obs["fin_ind"] is not None and obs["fin_ind"]["cond"] == 0:
                return "sender's user told 'no error' although the check limit was reached"
            return None

        msg = None
        if decided is None:
            if obs["fin_ind"] is not None or obs["fault_op"] is not None or obs["cancel_eof"] is not None:
                msg = f"sender ended the transaction without expiry or Finished PDU: {obs}"
            what = "nothing"
        elif decided[0] == "fin":
            msg, what = as_fin(decided), "finished"
        elif decided[0] == "expiry":
            msg, what = as_expiry(decided), "check-limit"
        else:
            a, b = as_fin(decided), as_expiry(decided)
            msg, what = (a if (a is not None and b is not None) else None), "tie"
        if msg is None and decided is not None and h.states.state.name != "IDLE":
            msg = f"sender not idle after the outcome was decided (step {h.step.name})"
        if msg is not None:
            vs.append(verdict("sender-check-timer", f"C13/send/expected-{what}/{'fault' if obs['fault_op'] is not None else 'nofault'}/{'fin' if obs['fin_ind'] else 'nofin'}", msg))
    classes = ["send", f"decided:{decided[0] if decided else 'none'}", f"csum:{cfg['crc_type']}"]
    return Result(vs, decided is not None, classes, {"trace": trace[:20], "observed": obs, "tid": tid})


def evaluate(case):
    if case["part"] == "recv":
        return eval_recv(case)
    return eval_send(case)


def replay(case):
    return evaluate(case).verdicts


# ------------------------------------------------------------------ generation
SEG = 4


def _cfg(csum, closure, L, chk_ms=1000, other_ms=None):
    """chk_ms: interval of the check timer of the entity under test; other_ms: the other role's interval (differs on
    purpose: a handler asking the provider for the wrong role's timer shows as an early or missing expiry)"""
    return {"mode": "NAK", "closure": closure, "crc_type": csum, "check_limit": L, "chk_ms_dst": chk_ms, "chk_ms_src": other_ms if other_ms is not None else chk_ms, "max_seg": SEG, "max_pkt": 64}


def exhaustive_cases(shard, nshards, tier):
    idx = 0
    maxn, maxL = (3, 4) if tier == "quick" else (4, 5)
    for csum, closure, L, n in itertools.product(["CRC_32", "CRC_32C"], [False, True], range(1, maxL + 1), range(1, maxn + 1)):
        for short in (0, 1):
            size = n * SEG - short * (SEG - 1)
            for late_mask in range(1, 1 << n):
                late = [i for i in range(n) if (late_mask >> i) & 1]
                for slots in itertools.product(range(0, L + 1), repeat=len(late)):
                    idx += 1
                    if idx % nshards != shard:
                        continue
                    tl = [["seg", i] for i in range(n) if i not in late] + ["eof"]
                    for s in range(0, L + 1):
                        for i, sl in zip(late, slots):
                            if sl == s:
                                tl.append(["seg", i])
                        if s < L:
                            tl.append(["tick", (s * 7) % 3])
                    tl2 = tl + [["tick", 1]]  # one more expiry: must change nothing once the transaction is over
                    if (idx // 3) % 2 == 0:
                        # the transfer took a while: several check-timer intervals pass between the Metadata PDU and the EOF
                        k = tl2.index("eof")
                        tl2 = tl2[:k] + [["wait", 2500]] + tl2[k:]
                    yield {"part": "recv", "cfg": _cfg(csum, closure, L, 1000, 77 if (n + L) % 2 else 9000), "n": n, "seg": SEG, "size": size, "pat": b"\x21\x43\x65\x87\xa9", "timeline": tl2}
    # sender side
    for csum, size in itertools.product(["CRC_32", "CRC_32C", "MODULAR", "NULL_CHECKSUM"], [0, 1, SEG, 2 * SEG + 1]):
        for tl in (
            ["idle", "idle"],
            [["fin", 0]],
            ["idle", ["fin", 0]],
            [["fin", 4]],
            [["fin", CL]],
            ["tick"],
            ["idle", "idle", ["tick", 0]],
            ["idle", ["tick", 500]],
            ["almost", "tick"],
            ["almost", ["fin", 0]],
            [["tickfin", 0, 0]],
            [["tickfin", 0, 1]],
            ["tick", ["fin", 0]],
            [["fin", 0], "tick"],
        ):
            idx += 1
            if idx % nshards != shard:
                continue
            for other in (77, 9000):
                c = _cfg(csum, other == 77, 2)  # closure from the MIB (True) or only from the request (MIB False)
                c["chk_ms_src"], c["chk_ms_dst"] = 1000, other
                yield {"part": "send", "cfg": c, "seg": SEG, "size": size, "pat": b"\x10\x20\x30", "timeline": tl}


@st.composite
def sampled_case(draw):
    if draw(st.integers(0, 7)) == 0:
        csum = draw(st.sampled_from(["CRC_32", "CRC_32C", "MODULAR", "NULL_CHECKSUM"]))
        size = draw(st.integers(0, 40))
        op = st.one_of(
            st.just("idle"), st.just("almost"),
            st.tuples(st.just("tick"), st.integers(0, 2000)).map(list),
            st.tuples(st.just("fin"), st.sampled_from([0, 0, 4, 5, CL, 15])).map(list),
            st.tuples(st.just("tickfin"), st.sampled_from([0, 4]), st.integers(0, 3)).map(list),
        )
        cfg = _cfg(csum, draw(st.booleans()), draw(st.integers(1, 3)))
        cfg["chk_ms_src"], cfg["chk_ms_dst"] = draw(st.sampled_from([[2, 1000], [10, 3], [1000, 20], [1000, 60000], [50, 50]]))
        cfg["max_seg"] = draw(st.sampled_from([1, 3, 4, 16]))
        return {"part": "send", "cfg": cfg, "seg": cfg["max_seg"], "size": size, "pat": draw(st.binary(min_size=1, max_size=8)), "timeline": draw(st.lists(op, max_size=6))}
    csum = draw(st.sampled_from(["CRC_32", "CRC_32C"]))
    L = draw(st.integers(1, 6))
    n = draw(st.integers(1, 8))
    seg = draw(st.sampled_from([1, 2, 4, 16]))
    short = draw(st.integers(0, seg - 1))
    size = n * seg - short
    cfg = _cfg(csum, draw(st.booleans()), L, draw(st.sampled_from([2, 3, 1000])), draw(st.sampled_from([1, 40, 70000])))
    cfg["max_seg"] = seg
    cfg["disposition"] = draw(st.booleans())
    late = draw(st.lists(st.integers(0, n - 1), min_size=1, max_size=n, unique=True))
    early = [i for i in range(n) if i not in late]
    early = list(draw(st.permutations(early)))
    if early and draw(st.integers(0, 3)) == 0:
        early.append(draw(st.sampled_from(early)))  # duplicate
    tl = [["seg", i] for i in early]
    if draw(st.integers(0, 2)) == 0:
        tl.insert(draw(st.integers(0, len(tl))), ["wait", draw(st.sampled_from([1, 999, 1000, 5000, 100000]))])
    tl.append("eof")
    # arrival slot of each late segment; a bias towards the decisive region around L
    ops = []
    for i in late:
        slot = draw(st.one_of(st.integers(0, L + 1), st.sampled_from([max(0, L - 1), L])))
        tie = draw(st.integers(0, 4)) == 0
        ops.append((slot, tie, i))
    for s in range(0, L + 2):
        for slot, tie, i in ops:
            if slot == s and not tie:
                tl.append(["seg", i])
                if draw(st.integers(0, 5)) == 0 and early:
                    tl.append(["seg", draw(st.sampled_from(early))])
        if draw(st.integers(0, 3)) == 0:
            tl.append(draw(st.sampled_from(["idle", "almost"])))
        ties = [i for slot, tie, i in ops if slot == s and tie]
        extra = draw(st.sampled_from([0, 0, 1, 1, 2, 999, 1000, 5000]))
        if ties:
            tl.append(["tickseg", ties[0], extra])
            for i in ties[1:]:
                tl.append(["seg", i])
        else:
            tl.append(["tick", extra])
    return {"part": "recv", "cfg": cfg, "n": n, "seg": seg, "size": size, "pat": draw(st.binary(min_size=1, max_size=16)), "timeline": tl}


PARAMS = {"quick": 1200, "thorough": 20000}


def shard(ctx):
    models.selfcheck()
    out = Out()
    enum_search(out, ctx["known"], exhaustive_cases(ctx["shard"], ctx["nshards"], ctx["tier"]), evaluate, stop_after=12)
    out.extra["exhaustive_cases"] = out.evaluations
    out.extra["exhaustive_part"] = "receiver: checksum {CRC_32, CRC_32C} x closure x L 1..4 (5 thorough) x n 1..3 (4) x short last segment x late subset x slot assignment; sender: 4 checksum types x 4 sizes x 12 timelines"
    out.exhaustive = False
    hyp_search(out, ctx["known"], sampled_case(), evaluate, PARAMS[ctx["tier"]], ctx["seed"])
    sim.cleanup_sandbox()
    return out


def selftest(merged, tier):
    c = merged["classes"]
    for k in ("outcome:success", "outcome:limit", "late-after-expiry", "tie", "tie-decides", "closure", "noclosure", "send", "decided:expiry", "decided:fin", "decided:either", "L:1", "L:4"):
        if c.get(k, 0) < 5:
            return f"class {k} nearly empty: {c.get(k, 0)}"
    return None
