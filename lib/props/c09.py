"""C09 - file checksums are correct for every content, length and chunking."""
from __future__ import annotations

from pathlib import Path

from hypothesis import strategies as st

from .. import models, sim
from .. import strategies as S
from ..core import Out, Result, hyp_search, verdict

ID = "C09"
LEVEL = "exploration"
TECHNIQUE = "Hypothesis-generated contents/prefixes/chunk lengths against bitwise reference checksums; cancel-time EOF checksum via a driven source handler"
LEVEL_TEXT = (
    "NativeFilestore.calculate_checksum / verify_checksum are compared with independent bit-by-bit CRC-32, CRC-32C and "
    "modular-checksum implementations (self-checked against published vectors and zlib) over generated contents, every kind "
    "of prefix and chunk length; for contents of <= 10 bytes every prefix x chunk pair is enumerated. The EOF checksum of a "
    "source handler cancelled at a generated point is checked against the reference over the bytes it sent."
)
LEVEL_NOTE = "Sampled beyond the small exhaustive part. Trusts lib/models.py reference checksums (start-up self-check)."
RULE = (
    "kind 'fs': content (0..2048 bytes, biased to empty, 1..5 bytes and multiples of 4 +-1), prefix 0..len, chunk 1..len+1 or huge, "
    "checksum type; contents <= 10 bytes get all prefix x chunk pairs. kind 'eof': transfer configuration + file, the source is "
    "cancelled after a generated number of calls (or runs to its EOF). Non-trivial: prefix < len with len > 4, or a chunk that does "
    "not divide the prefix, or a cancel EOF with 0 < progress < size. Distinct = distinct case."
)
ASSUMPTIONS = ["chunk (segment) length >= 1 (0 is documented to raise ValueError)", "prefix <= file size"]

TYPES = ["CRC_32", "CRC_32C", "MODULAR", "NULL_CHECKSUM"]


def contents():
    return st.one_of(
        st.binary(min_size=0, max_size=5),
        st.binary(min_size=0, max_size=64),
        st.integers(0, 512).flatmap(lambda k: st.binary(min_size=max(0, 4 * k - 1), max_size=4 * k + 1)),
        st.binary(min_size=0, max_size=2048),
    )


@st.composite
def fs_case(draw):
    data = draw(contents())
    n = len(data)
    prefix = draw(st.one_of(st.just(n), st.integers(0, n), st.sampled_from([0, max(0, n - 1), n // 2])))
    chunk = draw(st.one_of(st.integers(1, n + 1), st.sampled_from([1, 2, 3, 4, 5, 4096, 1 << 20, 1 << 40])))
    return {"kind": "fs", "data": data, "prefix": prefix, "chunk": chunk, "type": draw(st.sampled_from(TYPES)), "tweak": draw(st.integers(0, 31))}


@st.composite
def eof_case(draw):
    cfg = draw(S.cfgs(transports=("obj",)))
    f = draw(S.file_specs(cfg, max_bytes=2048, max_segments=12))
    return {"kind": "eof", "cfg": cfg, "file": f, "cancel_after": draw(st.one_of(st.none(), st.integers(1, 16)))}


def case_strategy():
    return st.one_of(fs_case(), fs_case(), fs_case(), eof_case())


def _path():
    return sim.proc_dir("c09") / "f.bin"


def _check_one(vfs, path, data, prefix, chunk, kind, tweak, vs):
    ctype = sim.CSUMS[kind]
    want = models.ref_checksum(kind, data[:prefix])
    try:
        got = vfs.calculate_checksum(ctype, path, prefix, chunk)
    except Exception as e:  # noqa: BLE001
        vs.append(verdict("calculate", f"C09/calculate-raised/{kind}/{type(e).__name__}", f"len {len(data)} prefix {prefix} chunk {chunk}: {e!r}"))
        return
    if not isinstance(got, (bytes, bytearray)) or len(got) != 4 or bytes(got) != want:
        which = "full" if prefix == len(data) else "prefix"
        vs.append(verdict("calculate", f"C09/wrong-checksum/{kind}/{which}", f"len {len(data)} prefix {prefix} chunk {chunk}: got {bytes(got).hex() if isinstance(got, (bytes, bytearray)) else got!r} want {want.hex()}"))
        return
    other = bytearray(want)
    other[tweak // 8 % 4] ^= 1 << (tweak % 8)
    try:
        t = vfs.verify_checksum(want, ctype, path, prefix, chunk)
        f = vfs.verify_checksum(bytes(other), ctype, path, prefix, chunk)
    except Exception as e:  # noqa: BLE001
        vs.append(verdict("verify", f"C09/verify-raised/{kind}/{type(e).__name__}", repr(e)))
        return
    if t is not True or f is not False:
        vs.append(verdict("verify", f"C09/verify-wrong/{kind}", f"verify(correct)={t!r} verify(corrupted)={f!r}"))


def evaluate(case):
    if case["kind"] == "eof":
        return _eval_eof(case)
    from cfdppy.filestore import NativeFilestore

    data, prefix, chunk, kind = bytes(case["data"]), case["prefix"], case["chunk"], case["type"]
    path = _path()
    path.write_bytes(data)
    vfs = NativeFilestore()
    vs = []
    _check_one(vfs, path, data, prefix, chunk, kind, case["tweak"], vs)
    n = len(data)
    classes = [f"type:{kind}", "prefix<len" if prefix < n else "full"]
    if n <= 10 and not vs:
        classes.append("small-exhaustive")
        for p in range(n + 1):
            for c in range(1, n + 2):
                _check_one(vfs, path, data, p, c, kind, case["tweak"], vs)
                if vs:
                    break
            if vs:
                break
    nt = (prefix < n and n > 4) or (prefix > 0 and prefix % chunk != 0)
    if prefix > 0 and prefix % chunk != 0:
        classes.append("chunk-not-dividing")
    return Result(vs, nt, classes, {"len": n, "prefix": prefix, "chunk": chunk, "type": kind})


def _eval_eof(case):
    cfg = sim.norm_cfg(case["cfg"])
    s = sim.Sim(case)
    try:
        vs = []
        h = s.src.h
        h.put_request(s.make_put_request())
        content = s.content
        ca = case["cancel_after"]
        eof = None
        cancelled = False
        for i in range(200):
            if ca is not None and i == ca and not s.src.idle():
                try:
                    r = h.cancel_request(h.transaction_id)
                except Exception as e:  # noqa: BLE001
                    return Result([], False, ["eof:cancel-raised"], {"exc": repr(e)})
                cancelled = bool(r)
                out = s.src.drain()
            else:
                out = s.src.call(None)
            for p in out:
                if sim.pdu_kind(p) == "EOF":
                    eof = p
            if eof is not None or s.src.idle() or s.src.internal_error:
                break
        if eof is None:
            return Result([], False, ["eof:none"], sim.summarize(s))
        sent = sim_sent_prefix(s)
        want = models.ref_checksum(cfg["crc_type"], content[:sent])
        classes = ["eof:cancel" if cancelled else "eof:normal", f"type:{cfg['crc_type']}"]
        if bytes(eof.file_checksum) != want or eof.file_size != sent:
            which = "cancel" if cancelled else "normal"
            vs.append(verdict("eof-checksum", f"C09/eof-checksum/{cfg['crc_type']}/{which}", f"sent {sent} of {len(content)}: EOF size {eof.file_size} checksum {bytes(eof.file_checksum).hex()} want {want.hex()}"))
        nt = cancelled and 0 < sent < len(content)
        if nt:
            classes.append("eof:cancel-midfile")
        # acknowledged mode: the EOF PDUs re-sent by the positive ACK procedure (nobody answers here) are EOF PDUs the
        # source places on the link as well: same size, same checksum of the bytes sent
        if not vs and sim.eff_mode(cfg) == "ACK" and not s.src.idle():
            resent = 0
            for _ in range(3):
                d = sim.CLOCK.next_deadline()
                if d is None or s.src.idle() or s.src.internal_error:
                    break
                sim.CLOCK.now = d + 1
                for p in s.src.call(None):
                    if sim.pdu_kind(p) == "EOF" and int(p.condition_code) == int(eof.condition_code):
                        resent += 1
                        if bytes(p.file_checksum) != want or p.file_size != sent:
                            which = "cancel" if cancelled else "normal"
                            vs.append(verdict("eof-checksum", f"C09/resent-eof-checksum/{cfg['crc_type']}/{which}", f"sent {sent} of {len(content)}: re-sent EOF size {p.file_size} checksum {bytes(p.file_checksum).hex()} want {want.hex()}"))
                            break
                if vs:
                    break
            if resent:
                classes.append("eof:resent-checked")
        return Result(vs, nt, classes, {"sent": sent, "size": len(content), "cancelled": cancelled})
    finally:
        s.close()


def sim_sent_prefix(s):
    end = 0
    for p in s.emitted("src"):
        if sim.pdu_kind(p) == "FD":
            end = max(end, p.offset + len(p.file_data))
    return end


def replay(case):
    return evaluate(case).verdicts


PARAMS = {"quick": 2500, "thorough": 100000}


def shard(ctx):
    models.selfcheck()
    out = Out()
    hyp_search(out, ctx["known"], case_strategy(), evaluate, PARAMS[ctx["tier"]], ctx["seed"])
    sim.cleanup_sandbox()
    return out


def selftest(merged, tier):
    c = merged["classes"]
    for k in ("type:MODULAR", "type:CRC_32C", "prefix<len", "chunk-not-dividing", "small-exhaustive", "eof:cancel-midfile", "eof:resent-checked"):
        if c.get(k, 0) < 20:
            return f"class {k} nearly empty: {c.get(k, 0)}"
    return None
