"""C10 - handlers fail only with protocol exceptions and only when the caller is at fault."""
from __future__ import annotations

import copy
import os
import shutil

from hypothesis import strategies as st
from spacepackets.cfdp import ConditionCode, Direction, TransactionId
from spacepackets.cfdp.pdu import (
    AckPdu,
    DirectiveType,
    EofPdu,
    FileDataPdu,
    FinishedPdu,
    KeepAlivePdu,
    MetadataParams,
    MetadataPdu,
    NakPdu,
    TransactionStatus,
)
from spacepackets.cfdp.pdu.file_data import FileDataParams
from spacepackets.cfdp.pdu.finished import DeliveryCode, FileStatus, FinishedParams
from spacepackets.cfdp.pdu.prompt import PromptPdu, ResponseRequired
from spacepackets.cfdp.tlv import MessageToUserTlv
from spacepackets.util import UnsignedByteField

from .. import models, sim
from ..core import Out, Result, hyp_search, verdict

ID = "C10"
LEVEL = "exploration"
TECHNIQUE = "Hypothesis-generated API/PDU/timer histories on one handler (both kinds), exception bucketing by (type, innermost cfdppy frame), admission-refusal state snapshots; thorough tier adds an atheris coverage-guided campaign over the same history decoder"
LEVEL_TEXT = (
    "Histories of every PDU type (incl. Keep-Alive and Prompt) with right and wrong ids, sequence numbers, direction flags and modes, arbitrary "
    "condition/delivery/status codes, NAK scopes and requests, Metadata with and without names and options, put / cancel requests, timer expiries "
    "and partial draining are run against one SourceHandler or one DestHandler with default fault handlers. Any exception that is not a class of "
    "cfdppy.exceptions is a violation (bucketed by type and innermost library frame); 'unretrieved PDUs' may only be raised when PDUs really were "
    "queued at call entry; a PDU refused by the admission checks must leave state, queue and sandbox untouched."
)
LEVEL_NOTE = (
    "Sampled histories (<= 45 operations). 'Refused by the admission checks' is recognised by the exception class (InvalidPduDirection, Invalid*Id, "
    "InvalidTransactionSeqNum, NoRemoteEntityCfgFound, InvalidPduFor*Handler, PduIgnoredFor*). The documented ValueError of put_request for an "
    "invalid transmission mode is avoided by not generating invalid modes."
)
RULE = (
    "history = handler kind + configuration + <= 45 operations (PDUs of all 9 kinds with a mutation in {none, wrong destination id, wrong source "
    "id, wrong sequence number, flipped direction, other mode}, put / cancel (right or wrong id), tick, idle call; each call drains fully, "
    "partially or not at all). Non-trivial: the handler left its initial step and the history contains >= 1 refused and >= 1 accepted PDU. "
    "Distinct = distinct history."
)
ASSUMPTIONS = [
    "PDUs are well formed: built with spacepackets' PDU classes from in-range field values; ACK PDUs acknowledge EOF or Finished",
    "offsets and lengths < 2^20; message-to-user payloads as in C02 (spacepackets UnicodeDecodeError quirk avoided)",
    "F01-style process state: the shared-tracker work-around is applied at the start of a history on trees where that defect exists",
]

ADMISSION = (
    "InvalidPduDirection",
    "InvalidSourceId",
    "InvalidDestinationId",
    "InvalidTransactionSeqNum",
    "NoRemoteEntityCfgFound",
    "InvalidPduForSourceHandler",
    "InvalidPduForDestHandler",
    "PduIgnoredForSource",
    "PduIgnoredForDest",
)
MUTS = ["none", "none", "none", "none", "wrong_dest", "wrong_src", "wrong_seq", "flip_dir", "other_mode"]
CONDS = [c.name for c in ConditionCode if c.name != "NO_CONDITION_FIELD"]
SRC_FILES = [("e.bin", 0), ("s.bin", 5), ("m.bin", 37), ("l.bin", 300)]


def _off():
    return st.one_of(st.integers(0, 12), st.integers(0, 40), st.integers(0, 40), st.integers(0, 400), st.integers(0, (1 << 20) - 100))


def _len():
    return st.one_of(st.integers(0, 10), st.integers(0, 60))


def pdu_op():
    mut = st.sampled_from(MUTS)
    drain = st.sampled_from(["full", "full", "full", "full", "partial", "none"])
    req = st.tuples(_off(), _off()).map(list)
    kinds = st.one_of(
        st.tuples(st.just("md"), st.integers(0, 3), st.integers(0, 80), st.sampled_from(list(sim.CSUMS)), st.booleans(), st.booleans()).map(list),
        st.tuples(st.just("fd"), _off(), _len()).map(list),
        st.tuples(st.just("fd"), _off(), _len()).map(list),
        st.tuples(st.just("fdnext"), _len()).map(list),
        st.tuples(st.just("eof"), st.sampled_from(["NO_ERROR", "NO_ERROR", "CANCEL_REQUEST_RECEIVED"] + CONDS), st.integers(-2, 3), st.booleans()).map(list),
        st.tuples(st.just("ack"), st.sampled_from(["EOF", "FIN"]), st.sampled_from(["NO_ERROR"] + CONDS), st.sampled_from([s.name for s in TransactionStatus])).map(list),
        st.tuples(st.just("nak"), _off(), _off(), st.lists(req, max_size=4)).map(list),
        st.tuples(st.just("fin"), st.sampled_from(["NO_ERROR", "NO_ERROR"] + CONDS), st.sampled_from([d.name for d in DeliveryCode]), st.sampled_from([f.name for f in FileStatus])).map(list),
        st.tuples(st.just("ka"), _off()).map(list),
        st.tuples(st.just("prompt"), st.booleans()).map(list),
    )
    return st.tuples(st.just("pdu"), kinds, mut, drain).map(list)


def other_op(side):
    drain = st.sampled_from(["full", "full", "full", "partial", "none"])
    ops = [
        st.tuples(st.just("tick"), drain).map(list),
        st.tuples(st.just("idle"), drain).map(list),
        st.tuples(st.just("idle"), drain).map(list),
        st.tuples(st.just("cancel"), st.booleans(), drain).map(list),
        st.just(["drain"]),
        st.just(["clock"]),
    ]
    if side == "src":
        ops.append(st.tuples(st.just("put"), st.integers(0, len(SRC_FILES)), st.sampled_from([None, "ACK", "NAK"]), st.sampled_from([None, True, False])).map(list))
        ops.append(st.tuples(st.just("put"), st.integers(0, len(SRC_FILES)), st.sampled_from([None, "ACK", "NAK"]), st.sampled_from([None, True, False])).map(list))
        ops.append(st.tuples(st.just("idle"), drain).map(list))
        ops.append(st.tuples(st.just("idle"), drain).map(list))
    return st.one_of(*ops)


def _P(spec, mut="none", how="full"):
    return ["pdu", spec, mut, how]


@st.composite
def skeleton_ops(draw, side, cfg):
    """A plausible transfer script for one handler (so that deep steps are reached often), perturbed by
    loss / duplication / reordering / overlapping data, followed by a tail of timer expiries, re-sent
    PDUs and requests, with a few arbitrary operations inserted anywhere."""
    tail_common = [["tick", "full"], ["tick", "full"], ["idle", "full"], ["clock"], ["cancel", True, "full"]]
    if side == "dst":
        n = draw(st.integers(0, 6))
        seg = draw(st.sampled_from([1, 4, 5, 10]))
        size = n * seg
        md = _P(["md", draw(st.sampled_from([0, 0, 0, 1, 2, 3])), size, cfg["crc_type"], draw(st.booleans()), draw(st.booleans())])
        items = [md] + [_P(["fd", i * seg, seg]) for i in range(n)] + [_P(["eof", "NO_ERROR", 0, True, size])]
        script = []
        for it in items:
            act = draw(st.sampled_from(["keep", "keep", "keep", "keep", "drop", "dup", "late"]))
            if act == "drop":
                continue
            script.append(it)
            if act == "dup":
                script.append(it)
            if act == "late" and len(script) >= 2:
                script[-1], script[-2] = script[-2], script[-1]
        tail = st.one_of(
            st.sampled_from(tail_common),
            st.just(md),
            st.just(_P(["eof", "NO_ERROR", 0, True, size])),
            st.just(_P(["eof", "CANCEL_REQUEST_RECEIVED", 0, True, size])),
            st.just(_P(["ack", "FIN", "NO_ERROR", "ACTIVE"])),
            st.tuples(st.just("fd"), st.integers(0, max(size, 1)), st.integers(0, 12)).map(lambda t: _P(list(t))),
            st.integers(0, max(n - 1, 0)).map(lambda i: _P(["fd", i * seg, seg])),
        )
        script += draw(st.lists(tail, max_size=14))
    else:
        script = [["put", draw(st.integers(0, len(SRC_FILES))), draw(st.sampled_from([None, "ACK", "NAK"])), draw(st.sampled_from([None, True, False]))]]
        script += [["idle", "full"]] * draw(st.integers(0, 12))
        tail = st.one_of(
            st.sampled_from(tail_common + [["idle", "full"], ["idle", "full"]]),
            st.just(_P(["ack", "EOF", "NO_ERROR", "ACTIVE"])),
            st.just(_P(["fin", "NO_ERROR", "DATA_COMPLETE", "FILE_RETAINED"])),
            st.just(_P(["ka", 0])),
            st.tuples(st.integers(0, 40), st.integers(0, 40)).map(lambda t: _P(["nak", 0, 300, [[min(t), max(t)]]])),
            st.just(_P(["nak", 0, 300, [[0, 0]]])),
        )
        script += draw(st.lists(tail, max_size=14))
    for _ in range(draw(st.integers(0, 3))):
        pos = draw(st.integers(0, len(script)))
        script.insert(pos, draw(st.one_of(pdu_op(), other_op(side))))
    return script


@st.composite
def case_strategy(draw):
    side = draw(st.sampled_from(["dst", "src"]))
    cfg = {
        "mode": draw(st.sampled_from(["ACK", "NAK"])),
        "closure": draw(st.booleans()),
        "immediate_nak": draw(st.booleans()),
        "disposition": draw(st.booleans()),
        "ack_limit": draw(st.integers(1, 3)),
        "nak_limit": draw(st.integers(1, 3)),
        "check_limit": draw(st.integers(1, 3)),
        "pdu_crc": draw(st.booleans()),
        "crc_type": draw(st.sampled_from(list(sim.CSUMS))),
        "max_pkt": draw(st.sampled_from([30, 48, 100])),
        "max_seg": draw(st.sampled_from([None, 4, 16])),
    }
    if draw(st.booleans()):
        ops = draw(skeleton_ops(side, cfg))
        return {"side": side, "cfg": cfg, "modes": draw(st.lists(st.sampled_from(["ACK", "ACK", "NAK"]), min_size=1, max_size=2)), "ops": ops}
    ops = draw(st.lists(st.one_of(pdu_op(), pdu_op(), other_op(side)), min_size=1, max_size=45))
    if side == "src" and draw(st.booleans()):
        ops = [["put", draw(st.integers(0, len(SRC_FILES))), None, None]] + ops
    if side == "dst" and draw(st.booleans()):
        ops = [["pdu", ["md", draw(st.integers(0, 3)), draw(st.integers(0, 80)), cfg["crc_type"], draw(st.booleans()), False], "none", "full"]] + ops
    return {"side": side, "cfg": cfg, "modes": draw(st.lists(st.sampled_from(["ACK", "NAK"]), min_size=1, max_size=3)), "ops": ops}


# ------------------------------------------------------------------ interpreter
class Ctx:
    pass


def _build_pdu(c, spec, mut):
    cfg = c.cfg
    mode = c.mode()
    if mut == "other_mode":
        mode = "NAK" if mode == "ACK" else "ACK"
    seq = c.seq + (3 if mut == "wrong_seq" else 0)
    conf = sim.pdu_conf_for(cfg, seq, mode)
    if mut == "wrong_dest":
        conf.dest_entity_id = UnsignedByteField(cfg["dst_id"][1] + 5, conf.dest_entity_id.byte_len)
    if mut == "wrong_src":
        conf.source_entity_id = UnsignedByteField(cfg["src_id"][1] + 5, conf.source_entity_id.byte_len)
    k = spec[0]
    if k == "md":
        _, names, size, cs, closure, opts = spec
        options = [MessageToUserTlv(b"hello"), MessageToUserTlv(b"cfdp\x00\x01\x02")] if opts else None
        if names == 1:
            params = MetadataParams(closure, sim.CSUMS[cs], size, None, None)
        else:
            dest = [c.root / "dst.bin", None, c.root / "sub", c.root / "nodir" / "x.bin"][names]
            params = MetadataParams(closure, sim.CSUMS[cs], size, "/x/source.bin", str(dest))
        p = MetadataPdu(conf, params, options)
    elif k in ("fd", "fdnext"):
        if k == "fd":
            off, ln = spec[1], spec[2]
        else:
            off, ln = c.next_off, spec[1]
        c.next_off = off + ln
        p = FileDataPdu(conf, FileDataParams(bytes((off + i) & 0xFF for i in range(ln)), off))
    elif k == "eof":
        cond, delta, right = spec[1], spec[2], spec[3]
        size = max(0, c.next_off + delta) if len(spec) < 5 else spec[4]
        p = EofPdu(conf, b"\x00\x00\x00\x00" if right else b"\x12\x34\x56\x78", size, condition_code=ConditionCode[cond])
    elif k == "ack":
        _, what, cond, status = spec
        p = AckPdu(conf, DirectiveType.EOF_PDU if what == "EOF" else DirectiveType.FINISHED_PDU, ConditionCode[cond], TransactionStatus[status])
    elif k == "nak":
        _, a, b, reqs = spec
        p = NakPdu(copy.copy(conf), min(a, b), max(a, b), [tuple(r) for r in reqs])
    elif k == "fin":
        _, cond, dc, fs = spec
        p = FinishedPdu(conf, FinishedParams(ConditionCode[cond], DeliveryCode[dc], FileStatus[fs]))
    elif k == "ka":
        p = KeepAlivePdu(conf, spec[1])
    elif k == "prompt":
        p = PromptPdu(conf, ResponseRequired.KEEP_ALIVE if spec[1] else ResponseRequired.NAK)
    else:
        raise ValueError(k)
    if mut == "flip_dir":
        d = p.pdu_header.pdu_conf.direction
        p.pdu_header.pdu_conf.direction = Direction.TOWARDS_SENDER if d == Direction.TOWARDS_RECEIVER else Direction.TOWARDS_RECEIVER
    return p


def _snap(h, side):
    base = (
        h.states.state,
        h.states.step,
        h.progress,
        h.file_size,
        sim.tid_plain(h.transaction_id),
        h.states.num_packets_ready,
        tuple(id(x.pdu) for x in h._pdus_to_be_sent),
        h.positive_ack_counter,
    )
    if side == "dst":
        base += (h.nak_activity_counter, h.current_check_counter, h.deferred_lost_segment_procedure_active)
    return base


def _where(e):
    import traceback

    tb = traceback.extract_tb(e.__traceback__)
    frames = [f for f in tb if "/cfdppy/" in f.filename]
    f = frames[-1] if frames else (tb[-1] if tb else None)
    return f"{os.path.basename(f.filename)}:{f.name}" if f else "?"


def evaluate(case):
    from cfdppy.defs import CfdpState
    from cfdppy.exceptions import UnretrievedPdusToBeSent
    from cfdppy.request import PutRequest

    side = case["side"]
    cfg = sim.norm_cfg(case["cfg"])
    root = sim.proc_dir("c10")
    for entry in os.listdir(root):
        fp = root / entry
        shutil.rmtree(fp) if fp.is_dir() else os.remove(fp)
    (root / "sub").mkdir()
    for name, size in SRC_FILES:
        (root / name).write_bytes(models.file_bytes({"pat": name.encode(), "size": size}))
    rig = sim.dest_rig(cfg) if side == "dst" else sim.source_rig(cfg)
    h = rig.h
    c = Ctx()
    c.cfg, c.root, c.seq, c.next_off, c.tx = cfg, root, cfg["seq_start"], 0, 0
    c.mode = (lambda: case["modes"][c.tx % len(case["modes"])]) if side == "dst" else (lambda: (h.transmission_mode.name[:3] if h.transmission_mode is not None else cfg["mode"]).replace("UNA", "NAK"))
    vs = []
    stats = {"refused": 0, "accepted": 0, "left_initial": 0, "unretrieved_legit": 0, "lib_exc": 0, "cancel_true": 0, "puts": 0, "completed": 0}
    trace = []
    was_busy = False
    initial_steps = {"IDLE", "TRANSACTION_START"}

    def drain(how):
        if how == "none":
            return
        n = 0
        while True:
            if how == "partial" and n >= 1:
                break
            try:
                x = h.get_next_packet()
            except Exception as e:  # noqa: BLE001
                vs.append(verdict("no-internal-error", f"C10/leak/{side}/get_next_packet/{type(e).__name__}@{_where(e)}", repr(e)))
                return
            if x is None:
                break
            n += 1

    for idx, op in enumerate(case["ops"]):
        kind = op[0]
        queued_before = len(h._pdus_to_be_sent)
        before = _snap(h, side)
        exc = None
        pdu = None
        how = "full"
        label = kind
        try:
            if kind == "pdu":
                _, spec, mut, how = op
                pdu = _build_pdu(c, spec, mut)
                label = f"{spec[0]}/{mut}"
                tree_before = sim.tree_snapshot(root) if side == "dst" else None
                h.state_machine(pdu)
            elif kind == "tick":
                how = op[1]
                rig.tick()
                h.state_machine(None)
            elif kind == "idle":
                how = op[1]
                h.state_machine(None)
            elif kind == "cancel":
                how = op[2]
                tid = h.transaction_id
                if not op[1] or tid is None:
                    tid = TransactionId(UnsignedByteField(9, 1), UnsignedByteField(9, 1))
                r = h.cancel_request(tid)
                if r is True:
                    stats["cancel_true"] += 1
                elif r is not False:
                    vs.append(verdict("api-contract", f"C10/cancel-returned/{r!r}", ""))
            elif kind == "drain":
                pass
            elif kind == "clock":
                how = "none"
                rig.tick()  # the clock passes the next expiry; the next call (with or without a PDU) notices it
            elif kind == "put":
                _, fi, mode, closure = op
                dst = UnsignedByteField(cfg["dst_id"][1], cfg["dst_id"][0])
                if fi >= len(SRC_FILES):
                    req = PutRequest(dst, None, None, None if mode is None else sim.MODES[mode], closure, msgs_to_user=[MessageToUserTlv(b"hi")])
                else:
                    req = PutRequest(dst, root / SRC_FILES[fi][0], root / ("out_" + SRC_FILES[fi][0]), None if mode is None else sim.MODES[mode], closure)
                if h.put_request(req):
                    stats["puts"] += 1
                    c.seq = rig.seqp.count  # the value the next transaction start will take
        except sim.LIB_EXC as e:
            exc = e
        except Exception as e:  # noqa: BLE001
            vs.append(verdict("no-internal-error", f"C10/leak/{side}/{type(e).__name__}@{_where(e)}", f"op {idx} {label} at step {before[1].name}: {e!r}"))
            trace.append([label, type(e).__name__])
            break
        name = None if exc is None else type(exc).__name__
        trace.append([label, name, h.states.step.name])
        if exc is not None:
            stats["lib_exc"] += 1
            if isinstance(exc, UnretrievedPdusToBeSent):
                if queued_before == 0:
                    vs.append(verdict("unretrieved-only-if-queued", f"C10/spurious-unretrieved/{side}@{_where(exc)}", f"op {idx} {label} at step {before[1].name}: queue was empty at call entry"))
                    break
                stats["unretrieved_legit"] += 1
            elif pdu is not None and name in ADMISSION:
                stats["refused"] += 1
                after = _snap(h, side)
                if after != before:
                    vs.append(verdict("refusal-leaves-state", f"C10/refused-pdu-changed-state/{side}/{name}/{label.split('/')[0]}", f"op {idx} {label}: {before} -> {after}"))
                    break
                if side == "dst" and sim.tree_snapshot(root) != tree_before:
                    vs.append(verdict("refusal-leaves-filestore", f"C10/refused-pdu-changed-filestore/{side}/{name}", f"op {idx} {label}"))
                    break
        elif pdu is not None:
            stats["accepted"] += 1
        if h.states.step.name not in initial_steps:
            stats["left_initial"] = 1
        for e in rig.log:
            pass
        drain(how)
        if vs:
            break
        busy = h.states.state == CfdpState.BUSY
        if was_busy and not busy:
            stats["completed"] += 1
            c.tx += 1
            c.next_off = 0
            if side == "dst":
                c.seq += 1
        was_busy = busy
    nt = bool(stats["left_initial"] and stats["refused"] >= 1 and stats["accepted"] >= 1)
    classes = [k for k, v in stats.items() if v] + [f"side:{side}"]
    return Result(vs, nt, classes, {"trace": trace[:30], "stats": stats})


def replay(case):
    return evaluate(case).verdicts


PARAMS = {"quick": 900, "thorough": 30000}


FUZZ_RUNS = {"quick": 0, "thorough": 6000}


def shard(ctx):
    out = Out()
    hyp_search(out, ctx["known"], case_strategy(), evaluate, PARAMS[ctx["tier"]], ctx["seed"], max_rounds=8)
    sim.cleanup_sandbox()
    if FUZZ_RUNS[ctx["tier"]]:
        # coverage-guided stage: the same property driven by atheris / libFuzzer with cfdppy instrumented
        from .. import fuzz

        out.extra["coverage_guided_stage"] = "atheris fuzz_one_input over the C10 history strategy, empty corpus, one campaign per shard"
        fuzz.campaign("C10", FUZZ_RUNS[ctx["tier"]], ctx["seed"], out)
    return out


def selftest(merged, tier):
    c = merged["classes"]
    for k in ("refused", "accepted", "left_initial", "unretrieved_legit", "cancel_true", "completed", "side:src", "side:dst"):
        if c.get(k, 0) < 20:
            return f"class {k} nearly empty: {c.get(k, 0)}"
    return None
