"""./check <ID> [--tier quick|thorough] [--replay file]

Exit 0: property held on everything explored (KNOWN-FINDING lines allowed).
Exit 1: at least one `VIOLATION property=<id> replay=<path>` line was printed.
Exit 2: harness error / inconclusive (never a VIOLATION).
"""
from __future__ import annotations

import argparse
import importlib
import json
import logging
import multiprocessing as mp
import os
import sys
import time
import traceback
from collections import Counter

from . import core
from .core import VERIF, HarnessError

EVIDENCE_DIR = os.path.join(VERIF, "evidence")
REPLAY_DIR = os.path.join(VERIF, "replays")


def _load(prop: str):
    return importlib.import_module(f"lib.props.{prop.lower()}")


def _assert_tree():
    import cfdppy

    p = os.path.realpath(cfdppy.__file__)
    root = os.environ.get("CFDPPY_VERIF_SCRATCH_REPO", "/repo")
    if not p.startswith(os.path.realpath(os.path.join(root, "src")) + os.sep):
        raise HarnessError(f"cfdppy imported from {p}, not from {root}/src")


def _shard_entry(args):
    prop, tier, seed, shard, nshards = args
    logging.disable(logging.CRITICAL)
    try:
        mod = _load(prop)
        known = core.load_known(prop)
        ctx = {
            "tier": tier,
            "seed": core.seed_for(seed, prop, shard),
            "base_seed": seed,
            "shard": shard,
            "nshards": nshards,
            "known": known,
        }
        out = mod.shard(ctx)
        return {"ok": True, "out": out.to_dict()}
    except HarnessError as e:
        return {"ok": False, "err": f"HarnessError: {e}", "tb": traceback.format_exc()}
    except BaseException as e:  # noqa: BLE001
        return {"ok": False, "err": core.fmt_exc(e), "tb": traceback.format_exc()}


def _validate_evidence(ev: dict):
    schema_path = "/root/.vp/EVIDENCE.schema.json"
    local = os.path.join(VERIF, "schemas", "EVIDENCE.schema.json")
    path = local if os.path.exists(local) else schema_path
    try:
        import jsonschema
    except ImportError:
        jsonschema = None
    if jsonschema is not None and os.path.exists(path):
        with open(path) as f:
            schema = json.load(f)
        jsonschema.validate(ev, schema)
        return
    cov = ev["coverage"]
    assert cov["evaluations"] >= 1 and cov["distinct_nontrivial"] >= 2 and cov["samples"]


def run_replay_file(prop: str, path: str):
    mod = _load(prop)
    with open(path) as f:
        data = json.load(f)
    case = data["case"] if isinstance(data, dict) and "case" in data else data
    return mod.replay(core.from_jsonable(case))


def main(argv=None):
    ap = argparse.ArgumentParser()
    ap.add_argument("prop")
    ap.add_argument("--tier", default=os.environ.get("VERIF_TIER", "quick"))
    ap.add_argument("--replay")
    ap.add_argument("--jobs", type=int, default=int(os.environ.get("VERIF_JOBS", "0")))
    a = ap.parse_args(argv)
    prop = a.prop.upper()
    tier = a.tier if a.tier in ("quick", "thorough") else "quick"
    try:
        seed = int(os.environ.get("VERIF_SEED", "1"))
    except ValueError:
        seed = 1
    logging.disable(logging.CRITICAL)
    t0 = time.time()
    try:
        _assert_tree()
        mod = _load(prop)
    except BaseException as e:  # noqa: BLE001
        print(f"HARNESS-ERROR property={prop} {core.fmt_exc(e)}")
        traceback.print_exc()
        return 2

    if a.replay:
        try:
            vs = run_replay_file(prop, a.replay)
        except BaseException as e:  # noqa: BLE001
            print(f"HARNESS-ERROR property={prop} replay failed: {core.fmt_exc(e)}")
            traceback.print_exc()
            return 2
        if vs:
            for v in vs:
                print(f"  clause={v['clause']} sig={v['sig']} detail={v['detail'][:300]}")
            print(f"VIOLATION property={prop} replay={a.replay}")
            return 1
        print(f"replay {a.replay}: property {prop} holds on this case")
        return 0

    known = core.load_known(prop)
    lines_known, stale, regress = [], [], []
    # 1. known findings are re-demonstrated, fixed ones are regression cases
    try:
        for e in known.entries:
            rp = os.path.join(VERIF, e["replay"])
            vs = run_replay_file(prop, rp)
            if any(core._sig_match(e, v["sig"]) for v in vs):
                lines_known.append(f"KNOWN-FINDING: property={prop} {e['id']} {e['what']}")
            else:
                stale.append(e["id"])
            for v in vs:
                if known.match(v) is None:
                    regress.append((rp, v))
        for e in known.fixed:
            if not e.get("replay"):
                continue
            rp = os.path.join(VERIF, e["replay"])
            vs = run_replay_file(prop, rp)
            for v in vs:
                if known.match(v) is None:
                    regress.append((rp, v))
        # cases on which an earlier version of the oracle raised a false alarm (DESIGN section 10): ordinary
        # regression inputs, the property holds on them on the unchanged tree
        import glob

        for rp in sorted(glob.glob(os.path.join(REPLAY_DIR, "quiet", f"{prop}-*.json"))):
            vs = run_replay_file(prop, rp)
            for v in vs:
                if known.match(v) is None:
                    regress.append((rp, v))
    except BaseException as e:  # noqa: BLE001
        print(f"HARNESS-ERROR property={prop} known-findings replay: {core.fmt_exc(e)}")
        traceback.print_exc()
        return 2

    try:
        from . import sim as _sim

        _sim.cleanup_sandbox()
    except Exception:  # noqa: BLE001
        pass

    # 2. the search
    ncpu = os.cpu_count() or 1
    nshards = a.jobs or min(16, ncpu)
    nshards = max(1, min(nshards, getattr(mod, "MAX_SHARDS", 16)))
    limit = getattr(mod, "TIME_LIMIT", {"quick": 900, "thorough": 7200})[tier]
    jobs = [(prop, tier, seed, i, nshards) for i in range(nshards)]
    results = []
    if nshards == 1:
        results = [_shard_entry(jobs[0])]
    else:
        ctxm = mp.get_context("fork")
        with ctxm.Pool(nshards, maxtasksperchild=1) as pool:
            asyncs = [pool.apply_async(_shard_entry, (j,)) for j in jobs]
            for r in asyncs:
                left = max(1.0, limit - (time.time() - t0))
                try:
                    results.append(r.get(timeout=left))
                except mp.TimeoutError:
                    pool.terminate()
                    print(f"INCONCLUSIVE property={prop} time limit {limit}s hit")
                    return 2
    errs = [r for r in results if not r["ok"]]
    if errs:
        shown = set()
        for r in errs:
            if r["err"] in shown:
                continue
            shown.add(r["err"])
            print(f"HARNESS-ERROR property={prop} {r['err']}")
            print(r["tb"])
        return 2

    merged = {
        "evaluations": 0,
        "nt": set(),
        "ntc": 0,
        "classes": Counter(),
        "samples": [],
        "violations": [],
        "known": Counter(),
        "notes": [],
        "extra": {},
    }
    exhaustive = None
    for r in results:
        o = r["out"]
        merged["evaluations"] += o["evaluations"]
        merged["nt"].update(o["nt"])
        merged["ntc"] += o.get("nt_by_construction", 0)
        merged["classes"].update(o["classes"])
        for s in o["samples"]:
            if len(merged["samples"]) < 8:
                merged["samples"].append(s)
        merged["violations"].extend(o["violations"])
        merged["known"].update(o["known"])
        merged["notes"].extend(o["notes"])
        for k, v in o.get("extra", {}).items():
            if isinstance(v, (int, float)):
                merged["extra"][k] = merged["extra"].get(k, 0) + v
            else:
                merged["extra"].setdefault(k, v)
        if o["exhaustive"] is not None:
            exhaustive = o["exhaustive"] if exhaustive is None else (exhaustive and o["exhaustive"])

    # 3. violations -> replay files (one per signature), re-executed before they are reported
    out_lines = []
    seen = set()
    os.makedirs(REPLAY_DIR, exist_ok=True)
    cand = [(None, v["case"], v["verdicts"]) for v in merged["violations"]]
    cand.sort(key=lambda c: len(core.canon(c[1])))
    nviol = 0
    for _, case, vds in cand:
        sig = vds[0]["sig"]
        if sig in seen:
            continue
        seen.add(sig)
        try:
            again = mod.replay(core.from_jsonable(case))
        except BaseException as e:  # noqa: BLE001
            print(f"HARNESS-ERROR property={prop} replay of found case raised {core.fmt_exc(e)}")
            traceback.print_exc()
            return 2
        if not any(known.match(v) is None for v in again) and not any(
            v["sig"] == sig for v in again
        ):
            print(f"HARNESS-ERROR property={prop} violation {sig} did not reproduce from its case")
            return 2
        name = f"{prop}-{core.case_hash([sig, case])[:8]}.json"
        path = os.path.join(REPLAY_DIR, name)
        with open(path, "w") as f:
            json.dump({"property": prop, "verdicts": vds, "case": case}, f, indent=1, sort_keys=True)
        for v in vds[:3]:
            out_lines.append(f"  clause={v['clause']} sig={v['sig']} detail={v['detail'][:300]}")
        out_lines.append(f"VIOLATION property={prop} replay={path}")
        nviol += 1
    for rp, v in regress:
        if v["sig"] in seen:
            continue
        seen.add(v["sig"])
        out_lines.append(f"  clause={v['clause']} sig={v['sig']} detail={v['detail'][:300]}")
        out_lines.append(f"VIOLATION property={prop} replay={rp}")
        nviol += 1

    # 4. self-test of the distribution (R5)
    selftest_err = None
    if hasattr(mod, "selftest"):
        try:
            selftest_err = mod.selftest(merged, tier)
        except BaseException as e:  # noqa: BLE001
            selftest_err = core.fmt_exc(e)

    # 5. evidence
    wall = time.time() - t0
    cov = {
        "evaluations": merged["evaluations"],
        "distinct_nontrivial": len(merged["nt"]) + merged["ntc"],
        "rule": mod.RULE,
        "samples": merged["samples"][:8],
        "classes": dict(sorted(merged["classes"].items())),
        "known_finding_hits_during_search": dict(merged["known"]),
        "known_findings_redemonstrated": [l for l in lines_known],
        "stale_known_findings": stale,
        "shards": nshards,
    }
    if merged["extra"]:
        cov["extra"] = merged["extra"]
    if exhaustive is not None:
        cov["exhaustive"] = bool(exhaustive)
    if merged["notes"]:
        cov["notes"] = sorted(set(merged["notes"]))[:20]
    ev = {
        "property_id": prop,
        "tier": tier,
        "seed": seed,
        "level": mod.LEVEL,
        "coverage": cov,
        "assumptions": list(getattr(mod, "ASSUMPTIONS", [])),
        "wall_s": round(wall, 2),
        "violations": nviol,
    }
    evdir = EVIDENCE_DIR
    if os.path.realpath(os.environ.get("CFDPPY_VERIF_SCRATCH_REPO", "/repo")) != os.path.realpath("/repo"):
        # run against a scratch worktree with a seeded change: its evidence is not evidence about /repo
        evdir = os.path.join("/tmp", "cfdppy-verif-scratch-evidence")
        ev["scratch_repo"] = os.environ.get("CFDPPY_VERIF_SCRATCH_REPO")
    os.makedirs(evdir, exist_ok=True)
    try:
        _validate_evidence(ev)
    except BaseException as e:  # noqa: BLE001
        print(f"HARNESS-ERROR property={prop} evidence invalid: {core.fmt_exc(e)}")
        with open(os.path.join(evdir, f"{prop}.json.invalid"), "w") as f:
            json.dump(ev, f, indent=1, sort_keys=True)
        return 2
    with open(os.path.join(evdir, f"{prop}.json"), "w") as f:
        json.dump(ev, f, indent=1, sort_keys=True)

    for l in lines_known:
        print(l)
    for l in out_lines:
        print(l)
    print(
        f"{prop} tier={tier} seed={seed} evaluations={merged['evaluations']} "
        f"distinct_nontrivial={len(merged['nt']) + merged['ntc']} known_hits={sum(merged['known'].values())} "
        f"violations={nviol} wall={wall:.1f}s"
    )
    if nviol:
        return 1
    if selftest_err:
        print(f"HARNESS-ERROR property={prop} self-test: {selftest_err}")
        return 2
    return 0


if __name__ == "__main__":
    sys.exit(main())
